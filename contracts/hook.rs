// The DiffHook trait, &mut D and NoFinishHook (src/algorithms/hook.rs) with the hook protocol
// contract of DESIGN.md section 3.2.
verus! {

pub open spec fn hook_pre_c(failed: bool, relies: bool, rel: Rel, st: St, ev: Ev) -> bool {
    !failed && (relies ==> step_rel(rel, st, ev).ok)
}

/// what every hook call leaves behind, whether it succeeded or not
pub open spec fn hook_frame_c<E>(relies0: bool, relies1: bool, rel0: Rel, rel1: Rel, failed1: bool, le1: Option<E>, res: Result<(), E>) -> bool {
    relies1 == relies0 && rel1 == rel0 && failed1 == res.is_err() && (res matches Err(e) ==> le1 == Some(e))
}

/// `replace` is either one Replace event (overriding hooks) or the default delete-then-insert; the
/// checker state is the same in both cases (see `step_rel`), only the recorded history differs.
pub open spec fn replace_trace(t0: Seq<Ev>, t1: Seq<Ev>, o: usize, ol: usize, n: usize, nl: usize, is_err: bool) -> bool {
    t1 == t0.push(Ev::Replace(o, ol, n, nl))
    || t1 == t0.push(Ev::Delete(o, ol, n)).push(Ev::Insert(o, n, nl))
    || (is_err && t1 == t0.push(Ev::Delete(o, ol, n)))
}

pub open spec fn hook_pre<D: DiffHook>(d: D, ev: Ev) -> bool {
    hook_pre_c(d.failed(), d.relies(), d.rely_rel(), d.rely_st(), ev)
}

pub open spec fn hook_frame<D: DiffHook>(d0: D, d1: D, res: Result<(), D::Error>) -> bool {
    hook_frame_c(d0.relies(), d1.relies(), d0.rely_rel(), d1.rely_rel(), d1.failed(), d1.last_err(), res)
}

pub open spec fn fin<D: DiffHook>() -> Seq<Ev> {
    if D::observes_finish() { seq![Ev::Finish] } else { Seq::<Ev>::empty() }
}

//@@ item src/algorithms/hook.rs :: ^pub trait DiffHook\b rw=R4,R0
pub trait DiffHook: Sized {
    /// The error produced from the hook methods.
    type Error;
    /*@*/ spec fn trace(&self) -> Seq<Ev>;
    /*@*/ spec fn failed(&self) -> bool;
    /*@*/ spec fn relies(&self) -> bool;
    /*@*/ spec fn rely_rel(&self) -> Rel;
    /*@*/ spec fn rely_st(&self) -> St;
    /*@*/ spec fn observes_finish() -> bool;
    /*@*/ spec fn last_err(&self) -> Option<Self::Error>;

    /// Called when lines with indices `old_index` (in the old version) and
    /// `new_index` (in the new version) start an section equal in both
    /// versions, of length `len`.
    fn equal(&mut self, old_index: usize, new_index: usize, len: usize) -> (res: Result<(), Self::Error>)
    /*@*/     requires hook_pre_c((*old(self)).failed(), (*old(self)).relies(), (*old(self)).rely_rel(), (*old(self)).rely_st(), Ev::Equal(old_index, new_index, len)),
    /*@*/     ensures (*final(self)).trace() == (*old(self)).trace().push(Ev::Equal(old_index, new_index, len)),
    /*@*/         hook_frame_c((*old(self)).relies(), (*final(self)).relies(), (*old(self)).rely_rel(), (*final(self)).rely_rel(), (*final(self)).failed(), (*final(self)).last_err(), res),
    /*@*/         res.is_ok() ==> (*final(self)).rely_st() == step_rel((*old(self)).rely_rel(), (*old(self)).rely_st(), Ev::Equal(old_index, new_index, len)),
    ;

    /// Called when a section of length `old_len`, starting at `old_index`,
    /// needs to be deleted from the old version.
    fn delete(
        &mut self,
        old_index: usize,
        old_len: usize,
        new_index: usize,
    ) -> (res: Result<(), Self::Error>)
    /*@*/     requires hook_pre_c((*old(self)).failed(), (*old(self)).relies(), (*old(self)).rely_rel(), (*old(self)).rely_st(), Ev::Delete(old_index, old_len, new_index)),
    /*@*/     ensures (*final(self)).trace() == (*old(self)).trace().push(Ev::Delete(old_index, old_len, new_index)),
    /*@*/         hook_frame_c((*old(self)).relies(), (*final(self)).relies(), (*old(self)).rely_rel(), (*final(self)).rely_rel(), (*final(self)).failed(), (*final(self)).last_err(), res),
    /*@*/         res.is_ok() ==> (*final(self)).rely_st() == step_rel((*old(self)).rely_rel(), (*old(self)).rely_st(), Ev::Delete(old_index, old_len, new_index)),
    ;

    /// Called when a section of the new version, of length `new_len`
    /// and starting at `new_index`, needs to be inserted at position `old_index'.
    fn insert(
        &mut self,
        old_index: usize,
        new_index: usize,
        new_len: usize,
    ) -> (res: Result<(), Self::Error>)
    /*@*/     requires hook_pre_c((*old(self)).failed(), (*old(self)).relies(), (*old(self)).rely_rel(), (*old(self)).rely_st(), Ev::Insert(old_index, new_index, new_len)),
    /*@*/     ensures (*final(self)).trace() == (*old(self)).trace().push(Ev::Insert(old_index, new_index, new_len)),
    /*@*/         hook_frame_c((*old(self)).relies(), (*final(self)).relies(), (*old(self)).rely_rel(), (*final(self)).rely_rel(), (*final(self)).failed(), (*final(self)).last_err(), res),
    /*@*/         res.is_ok() ==> (*final(self)).rely_st() == step_rel((*old(self)).rely_rel(), (*old(self)).rely_st(), Ev::Insert(old_index, new_index, new_len)),
    ;

    /// Called when a section of the old version, starting at index
    /// `old_index` and of length `old_len`, needs to be replaced with a
    /// section of length `new_len`, starting at `new_index`, of the new
    /// version.
    ///
    /// The default implementations invokes `delete` and `insert`.
    ///
    /// You can use the [`Replace`](crate::algorithms::Replace) hook to
    /// automatically generate these.
    #[inline(always)]
    fn replace(
        &mut self,
        old_index: usize,
        old_len: usize,
        new_index: usize,
        new_len: usize,
    ) -> (res: Result<(), Self::Error>)
    /*@*/     requires hook_pre_c((*old(self)).failed(), (*old(self)).relies(), (*old(self)).rely_rel(), (*old(self)).rely_st(), Ev::Replace(old_index, old_len, new_index, new_len)),
    /*@*/     ensures hook_frame_c((*old(self)).relies(), (*final(self)).relies(), (*old(self)).rely_rel(), (*final(self)).rely_rel(), (*final(self)).failed(), (*final(self)).last_err(), res),
    /*@*/         res.is_ok() ==> (*final(self)).rely_st() == step_rel((*old(self)).rely_rel(), (*old(self)).rely_st(), Ev::Replace(old_index, old_len, new_index, new_len)),
    /*@*/         replace_trace((*old(self)).trace(), (*final(self)).trace(), old_index, old_len, new_index, new_len, res.is_err()),
    {
        /*@*/ proof { reveal(step_rel); }
        self.delete(old_index, old_len, new_index)?;
        self.insert(old_index, new_index, new_len)
    }

    /// Always called at the end of the algorithm.
    #[inline(always)]
    fn finish(&mut self) -> (res: Result<(), Self::Error>)
    /*@*/     requires !(*old(self)).failed(), (*old(self)).relies() ==> wf((*old(self)).rely_st()),
    /*@*/     ensures (*final(self)).trace() == (*old(self)).trace() + (if Self::observes_finish() { seq![Ev::Finish] } else { Seq::<Ev>::empty() }),
    /*@*/         hook_frame_c((*old(self)).relies(), (*final(self)).relies(), (*old(self)).rely_rel(), (*final(self)).rely_rel(), (*final(self)).failed(), (*final(self)).last_err(), res),
    /*@*/         res.is_ok() ==> (*final(self)).rely_st() == (if Self::observes_finish() { step_rel((*old(self)).rely_rel(), (*old(self)).rely_st(), Ev::Finish) } else { (*old(self)).rely_st() }),
    ;
}
//@@ end

//@@ item src/algorithms/hook.rs :: ^impl<'a, D: DiffHook \+ 'a> DiffHook for &'a mut D rw=R0
impl<'a, D: DiffHook + 'a> DiffHook for &'a mut D {
    type Error = D::Error;
    /*@*/ open spec fn trace(&self) -> Seq<Ev> { (**self).trace() }
    /*@*/ open spec fn failed(&self) -> bool { (**self).failed() }
    /*@*/ open spec fn relies(&self) -> bool { (**self).relies() }
    /*@*/ open spec fn rely_rel(&self) -> Rel { (**self).rely_rel() }
    /*@*/ open spec fn rely_st(&self) -> St { (**self).rely_st() }
    /*@*/ open spec fn observes_finish() -> bool { D::observes_finish() }
    /*@*/ open spec fn last_err(&self) -> Option<Self::Error> { (**self).last_err() }

    #[inline(always)]
    fn equal(&mut self, old_index: usize, new_index: usize, len: usize) -> (res: Result<(), Self::Error>)
    {
        (*self).equal(old_index, new_index, len)
    }

    #[inline(always)]
    fn delete(
        &mut self,
        old_index: usize,
        old_len: usize,
        new_index: usize,
    ) -> (res: Result<(), Self::Error>)
    {
        (*self).delete(old_index, old_len, new_index)
    }

    #[inline(always)]
    fn insert(
        &mut self,
        old_index: usize,
        new_index: usize,
        new_len: usize,
    ) -> (res: Result<(), Self::Error>)
    {
        (*self).insert(old_index, new_index, new_len)
    }

    #[inline(always)]
    fn replace(
        &mut self,
        old: usize,
        old_len: usize,
        new: usize,
        new_len: usize,
    ) -> (res: Result<(), Self::Error>)
    {
        (*self).replace(old, old_len, new, new_len)
    }

    #[inline(always)]
    fn finish(&mut self) -> (res: Result<(), Self::Error>)
    {
        (*self).finish()
    }
}
//@@ end

//@@ item src/algorithms/hook.rs :: ^pub struct NoFinishHook
pub struct NoFinishHook<D: DiffHook>(D);
//@@ end

//@@ item src/algorithms/hook.rs :: ^impl<D: DiffHook> NoFinishHook<D>
impl<D: DiffHook> NoFinishHook<D> {
    /// Wraps another hook.
    pub fn new(d: D) -> NoFinishHook<D> {
        NoFinishHook(d)
    }

    /// Extracts the inner hook.
    pub fn into_inner(self) -> D {
        self.0
    }
}
//@@ end

//@@ item src/algorithms/hook.rs :: ^impl<D: DiffHook> DiffHook for NoFinishHook<D> rw=R0
impl<D: DiffHook> DiffHook for NoFinishHook<D> {
    type Error = D::Error;
    /*@*/ closed spec fn trace(&self) -> Seq<Ev> { self.0.trace() }
    /*@*/ closed spec fn failed(&self) -> bool { self.0.failed() }
    /*@*/ closed spec fn relies(&self) -> bool { self.0.relies() }
    /*@*/ closed spec fn rely_rel(&self) -> Rel { self.0.rely_rel() }
    /*@*/ closed spec fn rely_st(&self) -> St { self.0.rely_st() }
    /*@*/ closed spec fn observes_finish() -> bool { false }
    /*@*/ closed spec fn last_err(&self) -> Option<Self::Error> { self.0.last_err() }

    #[inline(always)]
    fn equal(&mut self, old_index: usize, new_index: usize, len: usize) -> (res: Result<(), Self::Error>)
    {
        self.0.equal(old_index, new_index, len)
    }

    #[inline(always)]
    fn delete(
        &mut self,
        old_index: usize,
        old_len: usize,
        new_index: usize,
    ) -> (res: Result<(), Self::Error>)
    {
        self.0.delete(old_index, old_len, new_index)
    }

    #[inline(always)]
    fn insert(
        &mut self,
        old_index: usize,
        new_index: usize,
        new_len: usize,
    ) -> (res: Result<(), Self::Error>)
    {
        self.0.insert(old_index, new_index, new_len)
    }

    #[inline(always)]
    fn replace(
        &mut self,
        old_index: usize,
        old_len: usize,
        new_index: usize,
        new_len: usize,
    ) -> (res: Result<(), Self::Error>)
    {
        self.0.replace(old_index, old_len, new_index, new_len)
    }

    fn finish(&mut self) -> (res: Result<(), Self::Error>)
    {
        Ok(())
    }
}
//@@ end

} // verus!
