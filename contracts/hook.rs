// The DiffHook trait, &mut D and NoFinishHook (src/algorithms/hook.rs) with the hook protocol
// contract of DESIGN.md section 3.2.
verus! {

/// the observable state of a hook (what contracts talk about)
pub struct Obs<E> {
    pub trace: Seq<Ev>, pub rely_st: St, pub failed: bool, pub last_err: Option<E>, pub relies: bool, pub rely_rel: Rel, pub accepts_replace: bool,
}

pub open spec fn hook_pre_c(failed: bool, relies: bool, rel: Rel, st: St, ev: Ev) -> bool {
    !failed && (relies ==> step_rel(rel, st, ev).ok)
}

/// what every hook call leaves behind, whether it succeeded or not
pub open spec fn hook_frame_c<E>(relies0: bool, relies1: bool, rel0: Rel, rel1: Rel, ar0: bool, ar1: bool, failed1: bool, le1: Option<E>, res: Result<(), E>) -> bool {
    relies1 == relies0 && rel1 == rel0 && ar1 == ar0 && failed1 == res.is_err() && (res matches Err(e) ==> le1 == Some(e))
}

pub open spec fn hook_pre<D: DiffHook>(d: D, ev: Ev) -> bool {
    hook_pre_c(d.failed(), d.relies(), d.rely_rel(), d.rely_st(), ev)
}

pub open spec fn hook_frame<D: DiffHook>(d0: D, d1: D, res: Result<(), D::Error>) -> bool {
    hook_frame_c(d0.relies(), d1.relies(), d0.rely_rel(), d1.rely_rel(), d0.accepts_replace(), d1.accepts_replace(), d1.failed(), d1.last_err(), res)
}

pub open spec fn fin<D: DiffHook>() -> Seq<Ev> {
    if D::observes_finish() { seq![Ev::Finish] } else { Seq::<Ev>::empty() }
}

pub open spec fn obs_now<D: DiffHook>(d: D) -> Obs<D::Error> {
    Obs { trace: d.trace(), rely_st: d.rely_st(), failed: d.failed(), last_err: d.last_err(), relies: d.relies(), rely_rel: d.rely_rel(), accepts_replace: d.accepts_replace() }
}

/// what `replace` records: one Replace event (overriding hooks) or the default's Delete, Insert
pub open spec fn replace_evs<D: DiffHook>(o: usize, ol: usize, n: usize, nl: usize) -> Seq<Ev> {
    if D::replace_is_atomic() { seq![Ev::Replace(o, ol, n, nl)] } else { seq![Ev::Delete(o, ol, n), Ev::Insert(o, n, nl)] }
}

//@@ item src/algorithms/hook.rs :: ^pub trait DiffHook\b rw=R4,R0
pub trait DiffHook: Sized {
    /// The error produced from the hook methods.
    type Error;
    /*@*/ spec fn trace(&self) -> Seq<Ev>;                 // history of successful calls received
    /*@*/ spec fn failed(&self) -> bool;                   // a call has returned Err
    /*@*/ spec fn last_err(&self) -> Option<Self::Error>;  // the error of that call
    /*@*/ spec fn relies(&self) -> bool;                   // does this hook depend on being driven by a valid script?
    /*@*/ spec fn rely_rel(&self) -> Rel;                  // the equality relation it expects the script to respect
    /*@*/ spec fn rely_st(&self) -> St;                    // the checker state it expects the next event to be valid from
    /*@*/ spec fn observes_finish() -> bool;               // does `finish` leave a trace (false for the no-op default)
    /*@*/ spec fn replace_is_atomic() -> bool;             // `replace` records one Replace event (overriding hooks) / Delete+Insert (default)
    /*@*/ spec fn accepts_replace(&self) -> bool;          // may `replace` be called (false for the Replace adapter: outside the verified envelope)
    /*@*/ spec fn config(&self) -> Self;                   // the part of the hook that no call changes (adapters: their configuration); framed by every call
    /*@*/ #[verifier::prophetic]
    /*@*/ spec fn fobs(&self) -> Seq<Obs<Self::Error>>;    // prophecy: what the hooks borrowed inside this value (outermost first) will look like when the borrows end;
    /*@*/                                                  // no call re-seats such a borrow, so it never changes (lets callers resolve `&mut` hooks stored in adapters)

    /// Called when lines with indices `old_index` (in the old version) and
    /// `new_index` (in the new version) start an section equal in both
    /// versions, of length `len`.
    fn equal(&mut self, old_index: usize, new_index: usize, len: usize) -> (res: Result<(), Self::Error>)
    /*@*/     requires hook_pre_c((*old(self)).failed(), (*old(self)).relies(), (*old(self)).rely_rel(), (*old(self)).rely_st(), Ev::Equal(old_index, new_index, len)),
    /*@*/     ensures hook_frame_c((*old(self)).relies(), (*final(self)).relies(), (*old(self)).rely_rel(), (*final(self)).rely_rel(), (*old(self)).accepts_replace(), (*final(self)).accepts_replace(), (*final(self)).failed(), (*final(self)).last_err(), res),
    /*@*/         (*final(self)).fobs() == (*old(self)).fobs(), (*final(self)).config() == (*old(self)).config(),
    /*@*/         res.is_ok() ==> (*final(self)).trace() == (*old(self)).trace().push(Ev::Equal(old_index, new_index, len)),
    /*@*/         res.is_ok() ==> (*final(self)).rely_st() == step_rel((*old(self)).rely_rel(), (*old(self)).rely_st(), Ev::Equal(old_index, new_index, len)),
    ;

    /// Called when a section of length `old_len`, starting at `old_index`,
    /// needs to be deleted from the old version.
    fn delete(
        &mut self,
        old_index: usize,
        old_len: usize,
        new_index: usize,
    ) -> (res: Result<(), Self::Error>)
    /*@*/     requires hook_pre_c((*old(self)).failed(), (*old(self)).relies(), (*old(self)).rely_rel(), (*old(self)).rely_st(), Ev::Delete(old_index, old_len, new_index)),
    /*@*/     ensures hook_frame_c((*old(self)).relies(), (*final(self)).relies(), (*old(self)).rely_rel(), (*final(self)).rely_rel(), (*old(self)).accepts_replace(), (*final(self)).accepts_replace(), (*final(self)).failed(), (*final(self)).last_err(), res),
    /*@*/         (*final(self)).fobs() == (*old(self)).fobs(), (*final(self)).config() == (*old(self)).config(),
    /*@*/         res.is_ok() ==> (*final(self)).trace() == (*old(self)).trace().push(Ev::Delete(old_index, old_len, new_index)),
    /*@*/         res.is_ok() ==> (*final(self)).rely_st() == step_rel((*old(self)).rely_rel(), (*old(self)).rely_st(), Ev::Delete(old_index, old_len, new_index)),
    ;

    /// Called when a section of the new version, of length `new_len`
    /// and starting at `new_index`, needs to be inserted at position `old_index'.
    fn insert(
        &mut self,
        old_index: usize,
        new_index: usize,
        new_len: usize,
    ) -> (res: Result<(), Self::Error>)
    /*@*/     requires hook_pre_c((*old(self)).failed(), (*old(self)).relies(), (*old(self)).rely_rel(), (*old(self)).rely_st(), Ev::Insert(old_index, new_index, new_len)),
    /*@*/     ensures hook_frame_c((*old(self)).relies(), (*final(self)).relies(), (*old(self)).rely_rel(), (*final(self)).rely_rel(), (*old(self)).accepts_replace(), (*final(self)).accepts_replace(), (*final(self)).failed(), (*final(self)).last_err(), res),
    /*@*/         (*final(self)).fobs() == (*old(self)).fobs(), (*final(self)).config() == (*old(self)).config(),
    /*@*/         res.is_ok() ==> (*final(self)).trace() == (*old(self)).trace().push(Ev::Insert(old_index, new_index, new_len)),
    /*@*/         res.is_ok() ==> (*final(self)).rely_st() == step_rel((*old(self)).rely_rel(), (*old(self)).rely_st(), Ev::Insert(old_index, new_index, new_len)),
    ;

    /// Called when a section of the old version, starting at index
    /// `old_index` and of length `old_len`, needs to be replaced with a
    /// section of length `new_len`, starting at `new_index`, of the new
    /// version.
    ///
    /// The default implementations invokes `delete` and `insert`.
    ///
    /// You can use the [`Replace`](crate::algorithms::Replace) hook to
    /// automatically generate these.
    #[inline(always)]
    fn replace(
        &mut self,
        old_index: usize,
        old_len: usize,
        new_index: usize,
        new_len: usize,
    ) -> (res: Result<(), Self::Error>)
    /*@*/     requires hook_pre_c((*old(self)).failed(), (*old(self)).relies(), (*old(self)).rely_rel(), (*old(self)).rely_st(), Ev::Replace(old_index, old_len, new_index, new_len)), (*old(self)).accepts_replace(),
    /*@*/     ensures hook_frame_c((*old(self)).relies(), (*final(self)).relies(), (*old(self)).rely_rel(), (*final(self)).rely_rel(), (*old(self)).accepts_replace(), (*final(self)).accepts_replace(), (*final(self)).failed(), (*final(self)).last_err(), res),
    /*@*/         (*final(self)).fobs() == (*old(self)).fobs(), (*final(self)).config() == (*old(self)).config(),
    /*@*/         res.is_ok() ==> (*final(self)).trace() == (if Self::replace_is_atomic() { (*old(self)).trace().push(Ev::Replace(old_index, old_len, new_index, new_len)) }
    /*@*/             else { (*old(self)).trace().push(Ev::Delete(old_index, old_len, new_index)).push(Ev::Insert(old_index, new_index, new_len)) }),
    /*@*/         res.is_ok() ==> (*final(self)).rely_st() == step_rel((*old(self)).rely_rel(), (*old(self)).rely_st(), Ev::Replace(old_index, old_len, new_index, new_len)),
    ;

    /// Always called at the end of the algorithm.
    #[inline(always)]
    fn finish(&mut self) -> (res: Result<(), Self::Error>)
    /*@*/     requires !(*old(self)).failed(), (*old(self)).relies() ==> wf((*old(self)).rely_st()),
    /*@*/     ensures hook_frame_c((*old(self)).relies(), (*final(self)).relies(), (*old(self)).rely_rel(), (*final(self)).rely_rel(), (*old(self)).accepts_replace(), (*final(self)).accepts_replace(), (*final(self)).failed(), (*final(self)).last_err(), res),
    /*@*/         (*final(self)).fobs() == (*old(self)).fobs(), (*final(self)).config() == (*old(self)).config(),
    /*@*/         res.is_ok() ==> (*final(self)).trace() == (*old(self)).trace() + (if Self::observes_finish() { seq![Ev::Finish] } else { Seq::<Ev>::empty() }),
    /*@*/         res.is_ok() ==> (*final(self)).rely_st() == (if Self::observes_finish() { step_rel((*old(self)).rely_rel(), (*old(self)).rely_st(), Ev::Finish) } else { (*old(self)).rely_st() }),
    ;
}
//@@ end

//@@ item src/algorithms/hook.rs :: ^impl<'a, D: DiffHook \+ 'a> DiffHook for &'a mut D rw=R4i,R0
impl<'a, D: DiffHook + 'a> DiffHook for &'a mut D {
    type Error = D::Error;
    /*@*/ open spec fn trace(&self) -> Seq<Ev> { (**self).trace() }
    /*@*/ open spec fn failed(&self) -> bool { (**self).failed() }
    /*@*/ open spec fn relies(&self) -> bool { (**self).relies() }
    /*@*/ open spec fn rely_rel(&self) -> Rel { (**self).rely_rel() }
    /*@*/ open spec fn rely_st(&self) -> St { (**self).rely_st() }
    /*@*/ open spec fn observes_finish() -> bool { D::observes_finish() }
    /*@*/ open spec fn last_err(&self) -> Option<Self::Error> { (**self).last_err() }
    /*@*/ open spec fn replace_is_atomic() -> bool { D::replace_is_atomic() }
    /*@*/ open spec fn accepts_replace(&self) -> bool { (**self).accepts_replace() }
    /*@*/ #[verifier::prophetic] open spec fn fobs(&self) -> Seq<Obs<Self::Error>> { seq![obs_now(mut_ref_future(*self))] + mut_ref_future(*self).fobs() }
    /*@*/ open spec fn config(&self) -> Self { arbitrary() }

    #[inline(always)]
    fn equal(&mut self, old_index: usize, new_index: usize, len: usize) -> (res: Result<(), Self::Error>)
    {
        (*self).equal(old_index, new_index, len)
    }

    #[inline(always)]
    fn delete(
        &mut self,
        old_index: usize,
        old_len: usize,
        new_index: usize,
    ) -> (res: Result<(), Self::Error>)
    {
        (*self).delete(old_index, old_len, new_index)
    }

    #[inline(always)]
    fn insert(
        &mut self,
        old_index: usize,
        new_index: usize,
        new_len: usize,
    ) -> (res: Result<(), Self::Error>)
    {
        (*self).insert(old_index, new_index, new_len)
    }

    #[inline(always)]
    fn replace(
        &mut self,
        old: usize,
        old_len: usize,
        new: usize,
        new_len: usize,
    ) -> (res: Result<(), Self::Error>)
    {
        (*self).replace(old, old_len, new, new_len)
    }

    #[inline(always)]
    fn finish(&mut self) -> (res: Result<(), Self::Error>)
    {
        (*self).finish()
    }
}
//@@ end

//@@ item src/algorithms/hook.rs :: ^pub struct NoFinishHook
pub struct NoFinishHook<D: DiffHook>(D);
//@@ end

//@@ item src/algorithms/hook.rs :: ^impl<D: DiffHook> NoFinishHook<D> rw=R0
impl<D: DiffHook> NoFinishHook<D> {
    /*@*/ pub closed spec fn inner(&self) -> D { self.0 }
    /// Wraps another hook.
    pub fn new(d: D) -> (res: NoFinishHook<D>)
    /*@*/     ensures res.inner() == d,
    {
        NoFinishHook(d)
    }

    /// Extracts the inner hook.
    pub fn into_inner(self) -> (res: D)
    /*@*/     ensures res == self.inner(),
    {
        self.0
    }
}
//@@ end

//@@ item src/algorithms/hook.rs :: ^impl<D: DiffHook> DiffHook for NoFinishHook<D> rw=R4i,R0
impl<D: DiffHook> DiffHook for NoFinishHook<D> {
    type Error = D::Error;
    /*@*/ open spec fn trace(&self) -> Seq<Ev> { self.inner().trace() }
    /*@*/ open spec fn failed(&self) -> bool { self.inner().failed() }
    /*@*/ open spec fn relies(&self) -> bool { self.inner().relies() }
    /*@*/ open spec fn rely_rel(&self) -> Rel { self.inner().rely_rel() }
    /*@*/ open spec fn rely_st(&self) -> St { self.inner().rely_st() }
    /*@*/ open spec fn observes_finish() -> bool { false }
    /*@*/ open spec fn last_err(&self) -> Option<Self::Error> { self.inner().last_err() }
    /*@*/ open spec fn replace_is_atomic() -> bool { D::replace_is_atomic() }
    /*@*/ open spec fn accepts_replace(&self) -> bool { self.inner().accepts_replace() }
    /*@*/ #[verifier::prophetic] open spec fn fobs(&self) -> Seq<Obs<Self::Error>> { self.inner().fobs() }
    /*@*/ closed spec fn config(&self) -> Self { NoFinishHook(self.0.config()) }

    #[inline(always)]
    fn equal(&mut self, old_index: usize, new_index: usize, len: usize) -> (res: Result<(), Self::Error>)
    {
        self.0.equal(old_index, new_index, len)
    }

    #[inline(always)]
    fn delete(
        &mut self,
        old_index: usize,
        old_len: usize,
        new_index: usize,
    ) -> (res: Result<(), Self::Error>)
    {
        self.0.delete(old_index, old_len, new_index)
    }

    #[inline(always)]
    fn insert(
        &mut self,
        old_index: usize,
        new_index: usize,
        new_len: usize,
    ) -> (res: Result<(), Self::Error>)
    {
        self.0.insert(old_index, new_index, new_len)
    }

    #[inline(always)]
    fn replace(
        &mut self,
        old_index: usize,
        old_len: usize,
        new_index: usize,
        new_len: usize,
    ) -> (res: Result<(), Self::Error>)
    {
        self.0.replace(old_index, old_len, new_index, new_len)
    }

    fn finish(&mut self) -> (res: Result<(), Self::Error>)
    {
        Ok(())
    }
}
//@@ end

} // verus!
