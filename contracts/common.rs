// src/common.rs: the capture functions
verus! {

/// C02 / C09 / C11: the captured op list, read as a script, is accepted by the exact normal-form checker from the
/// range starts and ends at both range ends.  `strict`: also the carried indices of Delete / Insert are exact.
pub open spec fn cap_post<Old: Index<usize> + ?Sized, New: Index<usize> + ?Sized>(old: &Old, or: Range<usize>, new: &New, nr: Range<usize>, ops: Seq<DiffOp>, strict: bool) -> bool
  where New::Output: PartialEq<Old::Output>
{
    let xs = xrun(rel_of(old, new), xcanon(or.start as int, nr.start as int, or.end as int, nr.end as int, strict), evs_of(ops));
    xs.ok && xs.oc == or.end && xs.nc == nr.end
    && xs.dels == (or.end - or.start) - xs.eqs && xs.inss == (nr.end - nr.start) - xs.eqs
}

/// number of items the captured ops report equal
pub open spec fn cap_eqs<Old: Index<usize> + ?Sized, New: Index<usize> + ?Sized>(old: &Old, or: Range<usize>, new: &New, nr: Range<usize>, ops: Seq<DiffOp>, strict: bool) -> int
  where New::Output: PartialEq<Old::Output>
{
    xrun(rel_of(old, new), xcanon(or.start as int, nr.start as int, or.end as int, nr.end as int, strict), evs_of(ops)).eqs
}

/// a hook whose `replace` records one Replace event records exactly what it is sent
pub proof fn lemma_sent_atomic<D: DiffHook>(em: Seq<Ev>)
  requires D::replace_is_atomic()
  ensures sent::<D>(em) == em
  decreases em.len()
{
    if em.len() > 0 {
        lemma_sent_atomic::<D>(em.drop_last());
        assert(sent::<D>(em) =~= em);
    } else {
        assert(sent::<D>(em) =~= em);
    }
}

/// a script accepted by the exact normal-form checker that deletes and inserts nothing is empty or one Equal
pub proof fn lemma_x_only_equal(rel: Rel, x0: Xs, evs: Seq<Ev>)
  requires x0.dels == 0, x0.inss == 0, x0.last == 0, xrun(rel, x0, evs).ok, xrun(rel, x0, evs).dels == 0, xrun(rel, x0, evs).inss == 0
  ensures evs.len() <= 1,
      evs.len() == 1 ==> evs[0] == Ev::Equal(x0.oc as usize, x0.nc as usize, (xrun(rel, x0, evs).oc - x0.oc) as usize) && xrun(rel, x0, evs).oc > x0.oc,
      evs.len() == 0 ==> xrun(rel, x0, evs) == x0
  decreases evs.len()
{
    if evs.len() > 0 {
        let e0 = evs.drop_last(); let e = evs.last();
        assert(e0.push(e) =~= evs);
        lemma_xrun_push(rel, x0, e0, e);
        lemma_x_counts(rel, x0, e0);
        let x1 = xrun(rel, x0, e0);
        lemma_x_only_equal(rel, x0, e0);
        if e0.len() == 1 { assert(x1.last == 1) by { assert(e0.drop_last() =~= Seq::<Ev>::empty()); lemma_xrun_push(rel, x0, e0.drop_last(), e0.last()); assert(e0.drop_last().push(e0.last()) =~= e0); } }
    }
}

/// totals only grow and a state is not ok unless its predecessor was
pub proof fn lemma_x_counts(rel: Rel, x0: Xs, evs: Seq<Ev>)
  ensures xrun(rel, x0, evs).dels >= x0.dels, xrun(rel, x0, evs).inss >= x0.inss, xrun(rel, x0, evs).ok ==> x0.ok
  decreases evs.len()
{
    if evs.len() > 0 { lemma_x_counts(rel, x0, evs.drop_last()); }
}

//@@ item src/common.rs :: ^pub fn capture_diff< rw=R0
pub fn capture_diff<Old, New>(
    alg: Algorithm,
    old: &Old,
    old_range: Range<usize>,
    new: &New,
    new_range: Range<usize>,
) -> (res: Vec<DiffOp>)
where
    Old: Index<usize> + ?Sized,
    New: Index<usize> + ?Sized,
    Old::Output: Hash + Eq + Ord,
    New::Output: PartialEq<Old::Output> + Hash + Eq + Ord,
/*@*/     requires box_pre(old, old_range, new, new_range),
/*@*/         alg == Algorithm::Lcs ==> ((old_range.end - old_range.start) <= u32::MAX || (new_range.end - new_range.start) <= u32::MAX),   // lcs table cells are u32
/*@*/     /*S*/     true,
/*@*/     ensures
/*@*/     /*L*/     cap_post(old, old_range, new, new_range, res@, false),   // [C02,C09,C10]
/*@*/     /*S*/     cap_post(old, old_range, new, new_range, res@, true),    // [C11]
/*@*/     // C09, last sentence: a pure insertion that is followed by equal items sits at its latest position (its first inserted item
/*@*/     // differs from the first equal item after it: `new[ins.new_index] == old[eq.old_index]` is false)
/*@*/     ins_late(rel_of(old, new), res@),   // [C09]
/*@*/     /*L*/     (true && alg != Algorithm::Patience) ==> cap_eqs(old, old_range, new, new_range, res@, false)
/*@*/     /*L*/         == lcs_len(old, old_range.start as int, old_range.end as int, new, new_range.start as int, new_range.end as int),   // [C03]
/*@*/     /*L*/     // C02: identical inputs give only Equal ops (none for two empty inputs) - for the minimal algorithms without deadline
/*@*/     /*L*/     (true && alg != Algorithm::Patience && (old_range.end - old_range.start) == (new_range.end - new_range.start)
/*@*/     /*L*/         && (forall|i: int| 0 <= i < old_range.end - old_range.start ==> #[trigger] relk(rel_of(old, new), old_range.start as int, new_range.start as int, i)))
/*@*/     /*L*/         ==> (res@.len() == (if old_range.end > old_range.start { 1nat } else { 0nat })
/*@*/     /*L*/              && (old_range.end > old_range.start ==> res@[0] == DiffOp::Equal { old_index: old_range.start, new_index: new_range.start, len: (old_range.end - old_range.start) as usize })),
{
    capture_diff_deadline(alg, old, old_range, new, new_range, None)
}
//@@ end

//@@ item src/common.rs :: ^pub fn capture_diff_deadline< rw=R0
pub fn capture_diff_deadline<Old, New>(
    alg: Algorithm,
    old: &Old,
    old_range: Range<usize>,
    new: &New,
    new_range: Range<usize>,
    deadline: Option<Instant>,
) -> (res: Vec<DiffOp>)
where
    Old: Index<usize> + ?Sized,
    New: Index<usize> + ?Sized,
    Old::Output: Hash + Eq + Ord,
    New::Output: PartialEq<Old::Output> + Hash + Eq + Ord,
/*@*/     requires box_pre(old, old_range, new, new_range),
/*@*/         alg == Algorithm::Lcs ==> ((old_range.end - old_range.start) <= u32::MAX || (new_range.end - new_range.start) <= u32::MAX),   // lcs table cells are u32
/*@*/     /*S*/     deadline is None || alg == Algorithm::Lcs,   // exactness is claimed without a deadline, and for LCS with any deadline (the Myers give-up path emits an Insert that carries the start of the deleted block)
/*@*/     ensures
/*@*/     /*L*/     cap_post(old, old_range, new, new_range, res@, false),   // [C02,C09,C10]
/*@*/     /*S*/     cap_post(old, old_range, new, new_range, res@, true),    // [C11]
/*@*/     // C09, last sentence: a pure insertion that is followed by equal items sits at its latest position (its first inserted item
/*@*/     // differs from the first equal item after it: `new[ins.new_index] == old[eq.old_index]` is false)
/*@*/     ins_late(rel_of(old, new), res@),   // [C09]
/*@*/     /*L*/     (deadline is None && alg != Algorithm::Patience) ==> cap_eqs(old, old_range, new, new_range, res@, false)
/*@*/     /*L*/         == lcs_len(old, old_range.start as int, old_range.end as int, new, new_range.start as int, new_range.end as int),   // [C03]
/*@*/     /*L*/     // C02: identical inputs give only Equal ops (none for two empty inputs) - for the minimal algorithms without deadline
/*@*/     /*L*/     (deadline is None && alg != Algorithm::Patience && (old_range.end - old_range.start) == (new_range.end - new_range.start)
/*@*/     /*L*/         && (forall|i: int| 0 <= i < old_range.end - old_range.start ==> #[trigger] relk(rel_of(old, new), old_range.start as int, new_range.start as int, i)))
/*@*/     /*L*/         ==> (res@.len() == (if old_range.end > old_range.start { 1nat } else { 0nat })
/*@*/     /*L*/              && (old_range.end > old_range.start ==> res@[0] == DiffOp::Equal { old_index: old_range.start, new_index: new_range.start, len: (old_range.end - old_range.start) as usize })),
{
    let mut d = Compact::new(Replace::new(Capture::new()), old, new);
    /*@*/ let ghost rel = rel_of(old, new);
    /*@*/ let ghost os = old_range.start as int; let ghost ns = new_range.start as int; let ghost oe = old_range.end as int; let ghost ne = new_range.end as int;
    /*@*/ /*L*/ let ghost lc: int = 1; let ghost lr: int = 0;     // Compact checks carried indices within their run; what it forwards is only cursor-valid
    /*@*/ /*S*/ let ghost lc: int = 2; let ghost lr: int = 2;     // exact in, exact out
    /*@*/ proof {
    /*@*/     // ghost configuration by the creator: both adapters expect a script for the box that starts at the range starts
    /*@*/     d.d.rst0@ = canon_l(os, ns, oe, ne, lr);
    /*@*/     d.d.rel0@ = rel;
    /*@*/     lemma_run_empty(rel, d.d.rst0_());
    /*@*/     assert(sent::<Capture>(Seq::<Ev>::empty()) + Seq::<Ev>::empty() =~= Seq::<Ev>::empty());
    /*@*/     assert(d.d.inner().trace() =~= Seq::<Ev>::empty());
    /*@*/     assert(d.d.inv());
    /*@*/     d.rst0@ = canon_l(os, ns, oe, ne, lc);
    /*@*/     d.ist0@ = d.d.rely_st();
    /*@*/     lemma_run_empty(rel, d.rst0_());
    /*@*/     assert(ops_of(Seq::<Ev>::empty()) =~= Seq::<DiffOp>::empty());
    /*@*/     assert(d.inv());
    /*@*/ }
    /*@*/ let ghost d0 = d;
    diff_deadline(alg, &mut d, old, old_range, new, new_range, deadline).unwrap();
    /*@*/ proof {
    /*@*/     reveal(step_rel);
    /*@*/     let lvl = lvl_of(alg, deadline);
    /*@*/     let s = choose|q: Seq<Ev>| #[trigger] seg(old, new, lvl, q, os, ns, oe, ne) && d.trace() == d0.trace() + q + fin::<Compact<Old, New, Replace<Capture>>>()
    /*@*/         && (d0.relies() ==> d.rely_st() == run_rel(d0.rely_rel(), d0.rely_st(), q + fin::<Compact<Old, New, Replace<Capture>>>()))
    /*@*/         && ((deadline is None && alg != Algorithm::Patience) ==> seg_eqs(rel, lvl, q, os, ns, oe, ne) == lcs_len(old, os, oe, new, ns, ne));
    /*@*/     lemma_seg_any(rel, rel, lvl, s, os, ns, oe, ne, d0.rely_st());
    /*@*/     lemma_run_fin::<Compact<Old, New, Replace<Capture>>>(rel, d0.rely_st(), s);
    /*@*/     assert(d.rely_st().ok && d.rely_st().fin);
    /*@*/     assert(d.inv() && d.rst().fin && d.done());
    /*@*/     // the inner Replace adapter has been driven by the compacted script and finished
    /*@*/     let rp = d.inner(); let ops1 = d.ops_();
    /*@*/     assert(rp.rely_st().ok);
    /*@*/     assert(rp.inv());
    /*@*/     lemma_run_fin::<Replace<Capture>>(rp.rr(), d.ist0_(), evs_of(ops1));
    /*@*/     assert(rp.rst().fin);
    /*@*/     let cp = rp.inner();
    /*@*/     lemma_sent_atomic::<Capture>(rp.em_());
    /*@*/     assert(cp.trace() =~= rp.em_());
    /*@*/     // the configuration of both adapters is still the one assigned above (start fields never change along a run)
    /*@*/     let r0 = d.rst0_(); let i0 = d.ist0_(); let q0 = rp.rst0_();
    /*@*/     let fc = fin::<Compact<Old, New, Replace<Capture>>>(); let fr = fin::<Replace<Capture>>();
    /*@*/     lemma_mono(d.rel(), r0, d.hist_());
    /*@*/     lemma_mono(rel, d0.rely_st(), s + fc);
    /*@*/     assert(d.rel() == rel);
    /*@*/     assert(r0.oc == os && r0.nc == ns && r0.oe == oe && r0.ne == ne && r0.lvl == lc);
    /*@*/     assert(d.rst().oc == oe && d.rst().nc == ne);
    /*@*/     lemma_mono(rp.rr(), q0, rp.hist_());
    /*@*/     lemma_mono(rp.rr(), i0, evs_of(ops1) + fr);
    /*@*/     assert(rp.rr() == rel);
    /*@*/     assert(q0.oc == os && q0.nc == ns && q0.oe == oe && q0.ne == ne && q0.lvl == lr);
    /*@*/     // what the Replace adapter received adds up to the compacted ops
    /*@*/     lemma_run_ops_acc(rel, i0, ops1);
    /*@*/     lemma_sums_mono(ops1, 0, ops1.len() as int);
    /*@*/     assert(rp.rst().oc == oe && rp.rst().nc == ne);
    /*@*/     let xs = rp.xs();
    /*@*/     assert(xs.ok && xs.oc == oe && xs.nc == ne);
    /*@*/     assert(evs_of(cp.ops_spec()) == rp.em_());
    /*@*/     assert(xs.eqs == seg_eqs(rel, lvl, s, os, ns, oe, ne));   // [C03]
    /*@*/     // C09, last sentence: every Insert of the compacted script is stuck (Compact::done); the Replace adapter, driven by such a
    /*@*/     // script, forwards only pure insertions that sit at their latest position (Replace::c9)
    /*@*/     assert(ins_stuck(rel, ops1));   // [C09]
    /*@*/     lemma_ins_stuck_evs(rel, ops1);
    /*@*/     assert(rp.hist_() =~= evs_of(ops1).push(Ev::Finish));
    /*@*/     assert(rp.late_ok());   // [C09]
    /*@*/     lemma_ev_late_ops(rel, cp.ops_spec());
    /*@*/     if deadline is None && alg != Algorithm::Patience && oe - os == ne - ns
    /*@*/         && (forall|i: int| 0 <= i < oe - os ==> #[trigger] relk(rel, os, ns, i)) {
    /*@*/         lemma_lcs_prefix(old, os, oe, new, ns, ne, oe - os);
    /*@*/         lemma_lcs_empty(old, oe, oe, new, ne, ne);
    /*@*/         lemma_x_only_equal(rel, rp.x0(), rp.em_());
    /*@*/         if rp.em_().len() == 1 { assert(cp.ops_spec()[0] == op_of(rp.em_()[0])) by { lemma_op_of_ev_of(cp.ops_spec()[0]); } }
    /*@*/     }
    /*@*/ }
    d.into_inner().into_inner().into_ops()
}
//@@ end

//@@ item src/common.rs :: ^pub fn capture_diff_slices< rw=R0
pub fn capture_diff_slices<T>(alg: Algorithm, old: &[T], new: &[T]) -> (res: Vec<DiffOp>)
where
    T: Eq + Hash + Ord,
/*@*/     requires box_pre(old, (0..old.len()), new, (0..new.len())),
/*@*/         alg == Algorithm::Lcs ==> (((0..old.len()).end - (0..old.len()).start) <= u32::MAX || ((0..new.len()).end - (0..new.len()).start) <= u32::MAX),   // lcs table cells are u32
/*@*/     /*S*/     true,
/*@*/     ensures
/*@*/     /*L*/     cap_post(old, (0..old.len()), new, (0..new.len()), res@, false),   // [C02,C09,C10]
/*@*/     /*S*/     cap_post(old, (0..old.len()), new, (0..new.len()), res@, true),    // [C11]
/*@*/     // C09, last sentence: a pure insertion that is followed by equal items sits at its latest position (its first inserted item
/*@*/     // differs from the first equal item after it: `new[ins.new_index] == old[eq.old_index]` is false)
/*@*/     ins_late(rel_of(old, new), res@),   // [C09]
/*@*/     /*L*/     (true && alg != Algorithm::Patience) ==> cap_eqs(old, (0..old.len()), new, (0..new.len()), res@, false)
/*@*/     /*L*/         == lcs_len(old, (0..old.len()).start as int, (0..old.len()).end as int, new, (0..new.len()).start as int, (0..new.len()).end as int),   // [C03]
/*@*/     /*L*/     // C02: identical inputs give only Equal ops (none for two empty inputs) - for the minimal algorithms without deadline
/*@*/     /*L*/     (true && alg != Algorithm::Patience && ((0..old.len()).end - (0..old.len()).start) == ((0..new.len()).end - (0..new.len()).start)
/*@*/     /*L*/         && (forall|i: int| 0 <= i < (0..old.len()).end - (0..old.len()).start ==> #[trigger] relk(rel_of(old, new), (0..old.len()).start as int, (0..new.len()).start as int, i)))
/*@*/     /*L*/         ==> (res@.len() == (if (0..old.len()).end > (0..old.len()).start { 1nat } else { 0nat })
/*@*/     /*L*/              && ((0..old.len()).end > (0..old.len()).start ==> res@[0] == DiffOp::Equal { old_index: (0..old.len()).start, new_index: (0..new.len()).start, len: ((0..old.len()).end - (0..old.len()).start) as usize })),
{
    capture_diff_slices_deadline(alg, old, new, None)
}
//@@ end

//@@ item src/common.rs :: ^pub fn capture_diff_slices_deadline< rw=R0
pub fn capture_diff_slices_deadline<T>(
    alg: Algorithm,
    old: &[T],
    new: &[T],
    deadline: Option<Instant>,
) -> (res: Vec<DiffOp>)
where
    T: Eq + Hash + Ord,
/*@*/     requires box_pre(old, (0..old.len()), new, (0..new.len())),
/*@*/         alg == Algorithm::Lcs ==> (((0..old.len()).end - (0..old.len()).start) <= u32::MAX || ((0..new.len()).end - (0..new.len()).start) <= u32::MAX),   // lcs table cells are u32
/*@*/     /*S*/     deadline is None || alg == Algorithm::Lcs,   // exactness is claimed without a deadline, and for LCS with any deadline (the Myers give-up path emits an Insert that carries the start of the deleted block)
/*@*/     ensures
/*@*/     /*L*/     cap_post(old, (0..old.len()), new, (0..new.len()), res@, false),   // [C02,C09,C10]
/*@*/     /*S*/     cap_post(old, (0..old.len()), new, (0..new.len()), res@, true),    // [C11]
/*@*/     // C09, last sentence: a pure insertion that is followed by equal items sits at its latest position (its first inserted item
/*@*/     // differs from the first equal item after it: `new[ins.new_index] == old[eq.old_index]` is false)
/*@*/     ins_late(rel_of(old, new), res@),   // [C09]
/*@*/     /*L*/     (deadline is None && alg != Algorithm::Patience) ==> cap_eqs(old, (0..old.len()), new, (0..new.len()), res@, false)
/*@*/     /*L*/         == lcs_len(old, (0..old.len()).start as int, (0..old.len()).end as int, new, (0..new.len()).start as int, (0..new.len()).end as int),   // [C03]
/*@*/     /*L*/     // C02: identical inputs give only Equal ops (none for two empty inputs) - for the minimal algorithms without deadline
/*@*/     /*L*/     (deadline is None && alg != Algorithm::Patience && ((0..old.len()).end - (0..old.len()).start) == ((0..new.len()).end - (0..new.len()).start)
/*@*/     /*L*/         && (forall|i: int| 0 <= i < (0..old.len()).end - (0..old.len()).start ==> #[trigger] relk(rel_of(old, new), (0..old.len()).start as int, (0..new.len()).start as int, i)))
/*@*/     /*L*/         ==> (res@.len() == (if (0..old.len()).end > (0..old.len()).start { 1nat } else { 0nat })
/*@*/     /*L*/              && ((0..old.len()).end > (0..old.len()).start ==> res@[0] == DiffOp::Equal { old_index: (0..old.len()).start, new_index: (0..new.len()).start, len: ((0..old.len()).end - (0..old.len()).start) as usize })),
{
    capture_diff_deadline(alg, old, 0..old.len(), new, 0..new.len(), deadline)
}
//@@ end

} // verus!
