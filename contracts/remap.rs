// src/utils.rs: SliceRemapper, TextDiffRemapper (C17) over an ABSTRACT byte view of `DiffableStr`
// (src/text/abstraction.rs).
//
// What is in this file
//   * the trait `DiffableStr` itself is declared in diffablestr.rs (shared with units tok / txt; included before this
//     file): a ghost byte view `bytes(&self) -> Seq<u8>` and the documented meaning of `len` / `slice` as their contract:
//         len()      ensures  res == self.bytes().len()
//         slice(rng) requires rng.start <= rng.end <= self.bytes().len()
//                    ensures  res.bytes() == self.bytes().subrange(rng.start, rng.end)
//     (H-DS) that the `impl DiffableStr for str` / `for [u8]` blocks of /repo satisfy this contract (with bytes = the
//     UTF-8 bytes / the bytes) is CHECKED in unit tok for `len` (both) and `slice` of `[u8]`; `slice` of `str` keeps an
//     assumed contract there: `&self[rng]` additionally panics when `rng` does not fall on char boundaries; token
//     boundaries produced by the tokenizers are char boundaries (tokenizer property C06: `tok_is`), which the abstract
//     byte view does not express.
//   * `SliceRemapper::new`: real body kept, `external_body` (iterator chain `.iter().scan(..).collect()`),
//     ASSUMED contract (H-NEW): `indexes` are the cumulative ranges of the token lengths.
//   * `SliceRemapper::slice`, `TextDiffRemapper::{new, slice_old, slice_new}`: real bodies, PROVED.
//   * dropped: `TextDiffRemapper::from_text_diff` (needs `TextDiff`, outside Verus) and `iter_slices`
//     (`impl Iterator` chain of `Option::into_iter().chain(..).map(closure)`, outside Verus); `iter_slices` is
//     represented by the spec transcription `slice_reqs` below (a MODEL, not checked against the code).
//   * EMPTY / REVERSED ranges in `slice(range)` (n = number of tokens), decided by the contract below:
//       - range.end == 0 (e.g. 0..0): `range.end - 1` underflows - a panic in debug builds, wrap-around to
//         usize::MAX in release builds (then `get` fails and the result is None); reached only when
//         `indexes.get(range.start)` succeeded, i.e. range.start < n.  Excluded by `requires 0 < range.end`.
//       - k..k with 0 < k < n: no panic; start = indexes[k].start and end = indexes[k-1].end are EQUAL
//         (lemma_slice_empty_range), so the result is Some(empty slice) - this is why "never return an empty
//         slice" needs ops whose consumed sides are non-empty;  n..n (and anything with range.start >= n): None.
//       - range.start > range.end: the computed byte range is reversed whenever a token in between is non-empty and
//         `source.slice` panics.  Excluded by `requires range.start <= range.end`.
//     So panic-freedom holds under `0 < range.end && range.start <= range.end` (+ the index table fits its
//     source, `contig`); the requests `iter_slices` makes satisfy the simpler `range.start < range.end`
//     (lemma_slice_reqs_pre / lemma_slice_reqs_in_script), for which `slice` is Some iff range.end <= n.
//   * not extracted: `impl Index<Range<usize>> for SliceRemapper` (`self.slice(range).expect(..)`: panics exactly
//     when `slice` returns None, see the contract of `slice`).
verus! {

// ---------------------------------------------------------------------------------------------
// vocabulary: token byte views, concatenation, cumulative ranges
// ---------------------------------------------------------------------------------------------
// (`toks`, the byte views of a token list, is defined with the trait in diffablestr.rs)

/// total length of the first i tokens
pub open spec fn lsum(t: Seq<Seq<u8>>, i: int) -> int
    decreases i
{
    if i <= 0 { 0 } else { lsum(t, i - 1) + t[i - 1].len() }
}

/// what `SliceRemapper::new` computes: entry i is the byte range of token i when the tokens are laid out
/// one after the other from offset 0
pub open spec fn cum_ranges(idx: Seq<Range<usize>>, t: Seq<Seq<u8>>) -> bool {
    idx.len() == t.len()
    && (forall|i: int| 0 <= i < idx.len() ==> (#[trigger] idx[i]).start == lsum(t, i) && idx[i].end == lsum(t, i) + t[i].len())
}

/// the two together: the remapper (idx, source) was built from tokens t that partition its source
pub open spec fn remap_hyp(idx: Seq<Range<usize>>, source: Seq<u8>, t: Seq<Seq<u8>>) -> bool {
    cum_ranges(idx, t) && tokens_partition(source, t)
}

/// index-level well-formedness (what `slice` needs to be panic free; implied by `remap_hyp`, lemma_hyp_contig):
/// every range is ordered and inside the source, consecutive ranges touch
pub open spec fn contig(idx: Seq<Range<usize>>, srclen: int) -> bool {
    (forall|i: int| 0 <= i < idx.len() ==> (#[trigger] idx[i]).start <= idx[i].end <= srclen)
    && (forall|i: int| 0 < i < idx.len() ==> idx[i - 1].end == (#[trigger] idx[i]).start)
}

pub proof fn lemma_contig_mono(idx: Seq<Range<usize>>, srclen: int, i: int, j: int)
    requires contig(idx, srclen), 0 <= i <= j < idx.len(),
    ensures idx[i].start <= idx[j].start, idx[i].start <= idx[j].end, idx[i].end <= idx[j].end,
    decreases j - i
{
    if i < j {
        lemma_contig_mono(idx, srclen, i, j - 1);
        assert(idx[j - 1].end == idx[j].start);
    }
}

pub proof fn lemma_lsum_mono(t: Seq<Seq<u8>>, i: int, j: int)
    requires 0 <= i <= j,
    ensures 0 <= lsum(t, i) <= lsum(t, j),
    decreases j
{
    if i < j { lemma_lsum_mono(t, i, j - 1); }
    else if i > 0 { lemma_lsum_mono(t, i - 1, i - 1); }
}

/// concatenations compose
pub proof fn lemma_cat_split(t: Seq<Seq<u8>>, a: int, b: int, c: int)
    requires a <= b <= c,
    ensures cat(t, a, c) == cat(t, a, b) + cat(t, b, c),
    decreases c - b
{
    if b == c {
        assert(cat(t, a, b) + cat(t, b, c) =~= cat(t, a, c));
    } else {
        lemma_cat_split(t, a, b, c - 1);
        assert(cat(t, a, c) =~= cat(t, a, b) + cat(t, b, c));
    }
}

pub proof fn lemma_cat_len(t: Seq<Seq<u8>>, a: int, b: int)
    requires 0 <= a <= b,
    ensures cat(t, a, b).len() == lsum(t, b) - lsum(t, a),
    decreases b - a
{
    if a < b { lemma_cat_len(t, a, b - 1); }
}

/// the concatenation of tokens a..b is the part of the whole concatenation between the cumulative offsets
pub proof fn lemma_cat_subrange(t: Seq<Seq<u8>>, a: int, b: int)
    requires 0 <= a <= b <= t.len(),
    ensures 0 <= lsum(t, a) <= lsum(t, b) <= cat(t, 0, t.len() as int).len(),
        cat(t, a, b) == cat(t, 0, t.len() as int).subrange(lsum(t, a), lsum(t, b)),
{
    let n = t.len() as int;
    lemma_cat_split(t, 0, a, b);
    lemma_cat_split(t, 0, b, n);
    lemma_cat_len(t, 0, a); lemma_cat_len(t, 0, b); lemma_cat_len(t, 0, n); lemma_cat_len(t, a, b);
    lemma_lsum_mono(t, a, b); lemma_lsum_mono(t, b, n);
    assert(cat(t, 0, n) == (cat(t, 0, a) + cat(t, a, b)) + cat(t, b, n));
    assert(cat(t, a, b) =~= cat(t, 0, n).subrange(lsum(t, a), lsum(t, b)));
}

/// under the hypothesis the index table is well formed for its source
pub proof fn lemma_hyp_contig(idx: Seq<Range<usize>>, source: Seq<u8>, t: Seq<Seq<u8>>)
    requires remap_hyp(idx, source, t),
    ensures contig(idx, source.len() as int),
{
    let n = t.len() as int;
    assert forall|i: int| 0 <= i < idx.len() implies (#[trigger] idx[i]).start <= idx[i].end <= source.len() by {
        lemma_cat_subrange(t, i, i + 1);
        lemma_cat_subrange(t, i + 1, n);
    }
    assert forall|i: int| 0 < i < idx.len() implies idx[i - 1].end == (#[trigger] idx[i]).start by {
        assert(idx[i - 1].end == lsum(t, i - 1) + t[i - 1].len());
    }
}

/// C17 "each returned slice is the substring of the original text covering exactly the op's tokens (equal to
/// their concatenation)": the bytes of the source between `idx[a].start` and `idx[b-1].end` - what `slice(a..b)`
/// cuts out - are the concatenation of the tokens a..b
pub proof fn lemma_slice_is_concat(idx: Seq<Range<usize>>, source: Seq<u8>, t: Seq<Seq<u8>>, a: int, b: int)
    requires remap_hyp(idx, source, t), 0 <= a < b <= idx.len(),
    ensures idx[a].start <= idx[b - 1].end <= source.len(),
        source.subrange(idx[a].start as int, idx[b - 1].end as int) == cat(t, a, b),
{
    lemma_cat_subrange(t, a, b);
    assert(idx[b - 1].end == lsum(t, b - 1) + t[b - 1].len());
}

/// the degenerate request k..k with 0 < k < n: the computed byte range is EMPTY (start == end), not reversed
pub proof fn lemma_slice_empty_range(idx: Seq<Range<usize>>, t: Seq<Seq<u8>>, k: int)
    requires cum_ranges(idx, t), 0 < k < idx.len(),
    ensures idx[k].start == idx[k - 1].end,
{
    assert(idx[k - 1].end == lsum(t, k - 1) + t[k - 1].len());
}

/// C17 "never return an empty slice" (for the remapped slices): a non-empty token range of non-empty tokens
/// (HYPOTHESIS: no tokenizer produces an empty token, C06) has a non-empty concatenation
pub proof fn lemma_slice_nonempty(t: Seq<Seq<u8>>, a: int, b: int)
    requires 0 <= a < b <= t.len(), forall|i: int| 0 <= i < t.len() ==> (#[trigger] t[i]).len() > 0,
    ensures cat(t, a, b).len() > 0,
{
    lemma_cat_len(t, a, b - 1);
    lemma_lsum_mono(t, a, b - 1);
    assert(cat(t, a, b).len() == cat(t, a, b - 1).len() + t[b - 1].len());
}

// ---------------------------------------------------------------------------------------------
// `TextDiffRemapper::iter_slices` as a list of slice requests (spec transcription of the match in /repo:
// src/utils.rs; the iterator chain itself is outside Verus)
// ---------------------------------------------------------------------------------------------
pub struct SliceReq { pub tag: ChangeTag, pub side_old: bool, pub range: Range<usize> }

pub open spec fn slice_reqs(op: DiffOp) -> Seq<SliceReq> {
    match op {
        DiffOp::Equal { old_index, new_index, len } =>
            seq![SliceReq { tag: ChangeTag::Equal, side_old: true, range: Range { start: old_index, end: (old_index + len) as usize } }],
        DiffOp::Insert { old_index, new_index, new_len } =>
            seq![SliceReq { tag: ChangeTag::Insert, side_old: false, range: Range { start: new_index, end: (new_index + new_len) as usize } }],
        DiffOp::Delete { old_index, old_len, new_index } =>
            seq![SliceReq { tag: ChangeTag::Delete, side_old: true, range: Range { start: old_index, end: (old_index + old_len) as usize } }],
        DiffOp::Replace { old_index, old_len, new_index, new_len } =>
            seq![SliceReq { tag: ChangeTag::Delete, side_old: true, range: Range { start: old_index, end: (old_index + old_len) as usize } },
                 SliceReq { tag: ChangeTag::Insert, side_old: false, range: Range { start: new_index, end: (new_index + new_len) as usize } }],
    }
}

/// every side an op consumes is non-empty (what the exact checker `xrun` demands of every event; note that
/// opspec's `no_empty` - old_len + new_len > 0 - is NOT enough for a Replace)
pub open spec fn sides_nonempty(op: DiffOp) -> bool {
    match op {
        DiffOp::Equal { old_index, new_index, len } => len > 0,
        DiffOp::Insert { old_index, new_index, new_len } => new_len > 0,
        DiffOp::Delete { old_index, old_len, new_index } => old_len > 0,
        DiffOp::Replace { old_index, old_len, new_index, new_len } => old_len > 0 && new_len > 0,
    }
}

/// every slice request `iter_slices` makes for such an op meets the precondition of `slice`
/// (`range.start < range.end`), its `index + len` does not overflow, and the requests are the op's ranges
pub proof fn lemma_slice_reqs_pre(op: DiffOp)
    requires op_wf(op), sides_nonempty(op),
    ensures forall|j: int| 0 <= j < slice_reqs(op).len() ==> {
            let r = #[trigger] slice_reqs(op)[j];
            r.range.start < r.range.end && r.range == (if r.side_old { op_old_range(op) } else { op_new_range(op) })
            && r.tag == (if op is Equal { ChangeTag::Equal } else if r.side_old { ChangeTag::Delete } else { ChangeTag::Insert })
        },
{}

/// C17 "remapping an op yields the same tags as slice-wise expansion" at the level of the two spec
/// transcriptions: the requests of an op, each repeated once per token of its range, are the tags of `expand(op)`
/// (Equal: one run of Equal; Delete / Insert: one run; Replace: the Delete run then the Insert run)
pub proof fn lemma_slice_reqs_tags(op: DiffOp, k: int)
    requires op_wf(op), 0 <= k < expand(op).len(),
    ensures ({ let rs = slice_reqs(op); let c = expand(op)[k];
        if k < rs[0].range.end - rs[0].range.start { c.tag == rs[0].tag }
        else { rs.len() == 2 && c.tag == rs[1].tag && k - (rs[0].range.end - rs[0].range.start) < rs[1].range.end - rs[1].range.start } }),
{}

// (the trait `DiffableStr` with its ghost byte view and the contract of `len` / `slice`: diffablestr.rs)


//@@ item src/utils.rs :: ^struct SliceRemapper
struct SliceRemapper<'x, T: ?Sized> {
    source: &'x T,
    indexes: Vec<Range<usize>>,
}
//@@ end

//@@ item src/utils.rs :: ^impl<'x, T: DiffableStr \+ \?Sized> SliceRemapper rw=R0
impl<'x, T: DiffableStr + ?Sized> SliceRemapper<'x, T> {
    /*@*/ pub closed spec fn src(&self) -> &'x T { self.source }
    /*@*/ pub closed spec fn idx(&self) -> Seq<Range<usize>> { self.indexes@ }
    /*@*/
    /*@*/ #[verifier::external_body]  // ASSUMED contract (H-NEW): the iterator chain `.iter().scan(0, closure).collect()` is outside Verus' subset
    fn new(source: &'x T, slices: &[&'x T]) -> (res: SliceRemapper<'x, T>)
    /*@*/     requires lsum(toks(slices@), slices@.len() as int) <= usize::MAX,   // `start + item.len()` does not overflow
    /*@*/     ensures res.src() == source, cum_ranges(res.idx(), toks(slices@)),
    {
        let indexes = slices
            .iter()
            .scan(0, |state, item| {
                let start = *state;
                let end = start + item.len();
                *state = end;
                Some(start..end)
            })
            .collect();
        SliceRemapper { source, indexes }
    }

    fn slice(&self, range: Range<usize>) -> (res: Option<&'x T>)
    /*@*/     requires
    /*@*/         0 < range.end,                  // `range.end - 1`: underflow = panic (debug) / wrap-around (release) otherwise
    /*@*/         range.start <= range.end,       // a reversed range makes the computed byte range reversed: `source.slice` panics
    /*@*/         contig(self.idx(), self.src().bytes().len() as int),
    /*@*/     ensures
    /*@*/         // Some exactly when both looked-up indices exist: for a non-empty range iff range.end <= n
    /*@*/         res is Some <==> (range.start < self.idx().len() && range.end <= self.idx().len()),
    /*@*/         res matches Some(s) ==> s.bytes() == self.src().bytes().subrange(self.idx()[range.start as int].start as int, self.idx()[range.end - 1].end as int),
    /*@*/         // C17: under the hypothesis the slice is the concatenation of the tokens range.start..range.end
    /*@*/         forall|t: Seq<Seq<u8>>| #[trigger] remap_hyp(self.idx(), self.src().bytes(), t) && range.start < range.end && res is Some
    /*@*/             ==> res.unwrap().bytes() == cat(t, range.start as int, range.end as int),
    {
        let start = self.indexes.get(range.start)?.start;
        let end = self.indexes.get(range.end - 1)?.end;
        /*@*/ proof {
        /*@*/     let n = self.indexes@.len() as int; let src = self.source.bytes();
        /*@*/     if range.start < range.end { lemma_contig_mono(self.indexes@, src.len() as int, range.start as int, range.end - 1); }
        /*@*/     else { assert(self.indexes@[range.start - 1].end == self.indexes@[range.start as int].start); }
        /*@*/     assert forall|t: Seq<Seq<u8>>| #[trigger] remap_hyp(self.indexes@, src, t) && range.start < range.end
        /*@*/         implies src.subrange(start as int, end as int) == cat(t, range.start as int, range.end as int) by {
        /*@*/         lemma_slice_is_concat(self.indexes@, src, t, range.start as int, range.end as int);
        /*@*/     }
        /*@*/ }
        Some(self.source.slice(start..end))
    }
}
//@@ end

//@@ item src/utils.rs :: ^pub struct TextDiffRemapper
pub struct TextDiffRemapper<'x, T: ?Sized> {
    old: SliceRemapper<'x, T>,
    new: SliceRemapper<'x, T>,
}
//@@ end

//@@ item src/utils.rs :: ^impl<'x, T: DiffableStr \+ \?Sized> TextDiffRemapper rw=R0 drop=fn\s+(from_text_diff|iter_slices)\b
impl<'x, T: DiffableStr + ?Sized> TextDiffRemapper<'x, T> {
    /*@*/ pub closed spec fn old_src(&self) -> &'x T { self.old.source }
    /*@*/ pub closed spec fn new_src(&self) -> &'x T { self.new.source }
    /*@*/ pub closed spec fn old_idx(&self) -> Seq<Range<usize>> { self.old.indexes@ }
    /*@*/ pub closed spec fn new_idx(&self) -> Seq<Range<usize>> { self.new.indexes@ }
    /*@*/
    /// Creates a new remapper from strings and slices.
    pub fn new(
        old_slices: &[&'x T],
        new_slices: &[&'x T],
        old: &'x T,
        new: &'x T,
    ) -> (res: TextDiffRemapper<'x, T>)
    /*@*/     requires lsum(toks(old_slices@), old_slices@.len() as int) <= usize::MAX, lsum(toks(new_slices@), new_slices@.len() as int) <= usize::MAX,
    /*@*/     ensures res.old_src() == old, cum_ranges(res.old_idx(), toks(old_slices@)),
    /*@*/         res.new_src() == new, cum_ranges(res.new_idx(), toks(new_slices@)),
    {
        TextDiffRemapper {
            old: SliceRemapper::new(old, old_slices),
            new: SliceRemapper::new(new, new_slices),
        }
    }


    /// Slices into the old string.
    pub fn slice_old(&self, range: Range<usize>) -> (res: Option<&'x T>)
    /*@*/     requires 0 < range.end, range.start <= range.end, contig(self.old_idx(), self.old_src().bytes().len() as int),
    /*@*/     ensures
    /*@*/         res is Some <==> (range.start < self.old_idx().len() && range.end <= self.old_idx().len()),
    /*@*/         res matches Some(s) ==> s.bytes() == self.old_src().bytes().subrange(self.old_idx()[range.start as int].start as int, self.old_idx()[range.end - 1].end as int),
    /*@*/         forall|t: Seq<Seq<u8>>| #[trigger] remap_hyp(self.old_idx(), self.old_src().bytes(), t) && range.start < range.end && res is Some
    /*@*/             ==> res.unwrap().bytes() == cat(t, range.start as int, range.end as int),
    {
        self.old.slice(range)
    }

    /// Slices into the new string.
    pub fn slice_new(&self, range: Range<usize>) -> (res: Option<&'x T>)
    /*@*/     requires 0 < range.end, range.start <= range.end, contig(self.new_idx(), self.new_src().bytes().len() as int),
    /*@*/     ensures
    /*@*/         res is Some <==> (range.start < self.new_idx().len() && range.end <= self.new_idx().len()),
    /*@*/         res matches Some(s) ==> s.bytes() == self.new_src().bytes().subrange(self.new_idx()[range.start as int].start as int, self.new_idx()[range.end - 1].end as int),
    /*@*/         forall|t: Seq<Seq<u8>>| #[trigger] remap_hyp(self.new_idx(), self.new_src().bytes(), t) && range.start < range.end && res is Some
    /*@*/             ==> res.unwrap().bytes() == cat(t, range.start as int, range.end as int),
    {
        self.new.slice(range)
    }

}
//@@ end

} // verus!
