// From a recorded history of hook calls to an op list and back (pure ghost): what the Compact hook needs to call
// cleanup_diff_ops on what it recorded and to replay the result into its inner hook.
verus! {

pub open spec fn ops_of(h: Seq<Ev>) -> Seq<DiffOp> { h.map_values(|e: Ev| op_of(e)) }

pub open spec fn only_edi(h: Seq<Ev>) -> bool {
    forall|i: int| 0 <= i < h.len() ==> ((#[trigger] h[i]) is Equal || h[i] is Delete || h[i] is Insert)
}

pub proof fn lemma_ops_of_push(h: Seq<Ev>, e: Ev)
  ensures ops_of(h.push(e)) == ops_of(h).push(op_of(e))
{
    assert(ops_of(h.push(e)) =~= ops_of(h).push(op_of(e)));
}

/// prefix sums do not depend on what follows
pub proof fn lemma_sums_push(ops: Seq<DiffOp>, x: DiffOp, i: int)
  requires 0 <= i <= ops.len()
  ensures osum(ops.push(x), i) == osum(ops, i), nsum(ops.push(x), i) == nsum(ops, i), esum(ops.push(x), i) == esum(ops, i)
  decreases i
{
    if i > 0 { lemma_sums_push(ops, x, i - 1); assert(ops.push(x)[i - 1] == ops[i - 1]); }
}

pub proof fn lemma_sums_mono(ops: Seq<DiffOp>, i: int, j: int)
  requires 0 <= i <= j <= ops.len()
  ensures osum(ops, i) <= osum(ops, j), nsum(ops, i) <= nsum(ops, j), esum(ops, i) <= esum(ops, j),
      esum(ops, j) - esum(ops, i) <= osum(ops, j) - osum(ops, i), esum(ops, j) - esum(ops, i) <= nsum(ops, j) - nsum(ops, i),
      0 <= esum(ops, i) <= osum(ops, i), esum(ops, i) <= nsum(ops, i)
  decreases j
{
    if j > i { lemma_sums_mono(ops, i, j - 1); }
    else if i > 0 { lemma_sums_mono(ops, i - 1, i - 1); }
}

/// a start state as a creator configures it: canonical (no open run), box representable in usize
pub open spec fn start_ok(r0: St) -> bool { start_ok0(r0) && r0.lvl >= 1 }

pub open spec fn full_box(r0: St) -> OBox { OBox { o0: r0.oc, n0: r0.nc, oe: r0.oe, ne: r0.ne } }

/// the strengthened induction hypothesis relating the checker state after `h` to the op list `ops_of(h)`
pub open spec fn hist_inv<Old: Index<usize> + ?Sized, New: Index<usize> + ?Sized>(old: &Old, new: &New, r0: St, h: Seq<Ev>) -> bool
  where New::Output: PartialEq<Old::Output>
{
    let ops = ops_of(h); let n = ops.len() as int; let st = run_rel(rel_of(old, new), r0, h); let ex = r0.lvl >= 2;
    &&& st.oc == r0.oc + osum(ops, n) && st.nc == r0.nc + nsum(ops, n) && st.eqs == r0.eqs + esum(ops, n)
    &&& st.ro - r0.oc >= esum(ops, n) && st.rn - r0.nc >= esum(ops, n) && st.ro <= st.oc && st.rn <= st.nc
    &&& st.lvl == r0.lvl && st.oe == r0.oe && st.ne == r0.ne && !st.fin && st.oc <= st.oe && st.nc <= st.ne
    &&& (forall|i: int| 0 <= i < n ==> #[trigger] op_ok(old, new, ops, i, full_box(r0), ex))
    &&& no_empty(ops)
    &&& (forall|i: int| 0 <= i < n ==> match #[trigger] ops[i] {
            DiffOp::Insert { old_index, new_index, new_len } => esum(ops, i) <= old_index && old_index + (esum(ops, n) - esum(ops, i)) <= imax(st.oc, st.po),
            DiffOp::Delete { old_index, old_len, new_index } => esum(ops, i) <= new_index && new_index + (esum(ops, n) - esum(ops, i)) <= imax(st.nc, st.pn),
            _ => true,
        })
}

pub proof fn lemma_hist_inv<Old: Index<usize> + ?Sized, New: Index<usize> + ?Sized>(old: &Old, new: &New, r0: St, h: Seq<Ev>)
  where New::Output: PartialEq<Old::Output>
  requires start_ok(r0), only_edi(h), run_rel(rel_of(old, new), r0, h).ok
  ensures hist_inv(old, new, r0, h)
  decreases h.len()
{
    reveal(step_rel);
    let rel = rel_of(old, new);
    if h.len() == 0 {
        assert(ops_of(h) =~= Seq::<DiffOp>::empty());
    } else {
        let h0 = h.drop_last(); let e = h.last();
        assert(h0.push(e) =~= h);
        lemma_run_push(rel, r0, h0, e);
        lemma_mono(rel, r0, h0);
        assert(only_edi(h0)) by { assert forall|i: int| 0 <= i < h0.len() implies ((#[trigger] h0[i]) is Equal || h0[i] is Delete || h0[i] is Insert) by { assert(h0[i] == h[i]); } }
        lemma_hist_inv(old, new, r0, h0);
        lemma_ops_of_push(h0, e);
        let ops0 = ops_of(h0); let ops = ops_of(h); let n0 = ops0.len() as int; let n = ops.len() as int;
        let st0 = run_rel(rel, r0, h0); let st = run_rel(rel, r0, h);
        let x = op_of(e);
        assert(ops == ops0.push(x) && n == n0 + 1 && ops[n0] == x);
        lemma_sums_push(ops0, x, n0);
        assert(osum(ops, n) == osum(ops0, n0) + olen(x) && nsum(ops, n) == nsum(ops0, n0) + nlen(x) && esum(ops, n) == esum(ops0, n0) + elen(x));
        lemma_sums_mono(ops0, 0, n0);
        let ex = r0.lvl >= 2;
        assert forall|i: int| 0 <= i < n implies #[trigger] op_ok(old, new, ops, i, full_box(r0), ex) by {
            lemma_sums_push(ops0, x, i);
            if i < n0 {
                assert(ops[i] == ops0[i]);
                assert(op_ok(old, new, ops0, i, full_box(r0), ex));
            }
        }
        assert(no_empty(ops)) by {
            assert forall|i: int| 0 <= i < ops.len() implies olen(#[trigger] ops[i]) + nlen(ops[i]) > 0 by {
                if i < n0 { assert(ops[i] == ops0[i]); }
            }
        }
        assert forall|i: int| 0 <= i < n implies match #[trigger] ops[i] {
            DiffOp::Insert { old_index, new_index, new_len } => esum(ops, i) <= old_index && old_index + (esum(ops, n) - esum(ops, i)) <= imax(st.oc, st.po),
            DiffOp::Delete { old_index, old_len, new_index } => esum(ops, i) <= new_index && new_index + (esum(ops, n) - esum(ops, i)) <= imax(st.nc, st.pn),
            _ => true,
        } by {
            lemma_sums_push(ops0, x, i);
            if i < n0 {
                assert(ops[i] == ops0[i]);
                lemma_sums_mono(ops0, i, n0);
            }
        }
    }
}

/// at a point where no carried index is pending (Equal / finish preconditions give `wf`): the recorded ops are a
/// complete cursor-valid script for the box that ends at the current cursor, with room around the carried indices
pub proof fn lemma_hist_ops<Old: Index<usize> + ?Sized, New: Index<usize> + ?Sized>(old: &Old, new: &New, r0: St, h: Seq<Ev>)
  where New::Output: PartialEq<Old::Output>
  requires start_ok(r0), only_edi(h), wf(run_rel(rel_of(old, new), r0, h))
  ensures ({ let st = run_rel(rel_of(old, new), r0, h); let ops = ops_of(h);
      let bc = OBox { o0: r0.oc, n0: r0.nc, oe: st.oc, ne: st.nc };
      ops_full(old, new, ops, bc, false) && (r0.lvl >= 2 ==> ops_full(old, new, ops, bc, true)) && carried_ok(ops)
      && esum(ops, ops.len() as int) == st.eqs - r0.eqs && st.oc <= r0.oe && st.nc <= r0.ne })
{
    lemma_hist_inv(old, new, r0, h);
    let st = run_rel(rel_of(old, new), r0, h); let ops = ops_of(h); let n = ops.len() as int;
    let bc = OBox { o0: r0.oc, n0: r0.nc, oe: st.oc, ne: st.nc };
    assert forall|i: int| 0 <= i < n implies #[trigger] op_ok(old, new, ops, i, bc, false) by {
        let ex = r0.lvl >= 2;
        assert(op_ok(old, new, ops, i, full_box(r0), ex));
        lemma_sums_mono(ops, i + 1, n);
        lemma_sums_mono(ops, i, i + 1);
    }
    if r0.lvl >= 2 {
        assert forall|i: int| 0 <= i < n implies #[trigger] op_ok(old, new, ops, i, bc, true) by {
            assert(op_ok(old, new, ops, i, full_box(r0), true));
            lemma_sums_mono(ops, i + 1, n);
            lemma_sums_mono(ops, i, i + 1);
        }
    }
    lemma_sums_mono(ops, 0, n);
    assert(box_wf(bc));
    assert(ops_ok(old, new, ops, bc, false));
    assert(ops_full(old, new, ops, bc, false));
    assert(carried_ok(ops)) by {
        assert forall|i: int| 0 <= i < ops.len() implies match #[trigger] ops[i] {
            DiffOp::Insert { old_index, new_index, new_len } => esum(ops, i) <= old_index && old_index + (esum(ops, ops.len() as int) - esum(ops, i)) <= usize::MAX,
            DiffOp::Delete { old_index, old_len, new_index } => esum(ops, i) <= new_index && new_index + (esum(ops, ops.len() as int) - esum(ops, i)) <= usize::MAX,
            _ => true,
        } by { }
    }
}

} // verus!
verus! {

/// replaying op k of a valid op list into a relying hook whose expected state sits at that op's cursor
pub proof fn lemma_op_step<Old: Index<usize> + ?Sized, New: Index<usize> + ?Sized>(old: &Old, new: &New, irel: Rel, ops: Seq<DiffOp>, k: int, bc: OBox, ist: St)
  where New::Output: PartialEq<Old::Output>
  requires 0 <= k < ops.len(), ops_full(old, new, ops, bc, false), ist.lvl >= 1 ==> ops_full(old, new, ops, bc, true),
      wf(ist), ist.oc == bc.o0 + osum(ops, k), ist.nc == bc.n0 + nsum(ops, k), ist.oe >= bc.oe, ist.ne >= bc.ne,
      rel_implies(rel_of(old, new), irel)
  ensures ({ let e = ev_of(ops[k]); let s2 = step_rel(irel, ist, e);
      s2.ok && wf(s2) && s2.oc == bc.o0 + osum(ops, k + 1) && s2.nc == bc.n0 + nsum(ops, k + 1) && s2.oe == ist.oe && s2.ne == ist.ne && s2.lvl == ist.lvl
      && !(ops[k] is Replace) })
{
    let op = ops[k]; let e = ev_of(op);
    assert(op_ok(old, new, ops, k, bc, false));
    if ist.lvl >= 1 { assert(op_ok(old, new, ops, k, bc, true)); }
    assert(olen(op) + nlen(op) > 0);
    match op {
        DiffOp::Equal { old_index, new_index, len } => {
            assert forall|i: int| 0 <= i < len implies #[trigger] relk(irel, old_index as int, new_index as int, i) by {
                assert(relk(rel_of(old, new), old_index as int, new_index as int, i));
                assert(rel_of(old, new)(old_index + i, new_index + i));
            }
        }
        _ => {}
    }
    lemma_step_exact(irel, ist, e);
}

} // verus!
verus! {

/// what running the events of an op list adds up to (no validity needed)
pub proof fn lemma_run_ops_acc(rel: Rel, st: St, ops: Seq<DiffOp>)
  ensures ({ let s2 = run_rel(rel, st, evs_of(ops)); let n = ops.len() as int;
      s2.oc == st.oc + osum(ops, n) && s2.nc == st.nc + nsum(ops, n) && s2.eqs == st.eqs + esum(ops, n)
      && s2.dels == st.dels + osum(ops, n) - esum(ops, n) && s2.inss == st.inss + nsum(ops, n) - esum(ops, n) })
  decreases ops.len()
{
    reveal(step_rel);
    if ops.len() == 0 {
        assert(evs_of(ops) =~= Seq::<Ev>::empty());
    } else {
        let o0 = ops.drop_last(); let x = ops.last(); let n0 = o0.len() as int;
        lemma_run_ops_acc(rel, st, o0);
        assert(o0.push(x) =~= ops);
        lemma_evs_of_push(o0, x);
        lemma_run_push(rel, st, evs_of(o0), ev_of(x));
        lemma_sums_push(o0, x, n0);
        assert(ops[n0] == x);
    }
}

// ---------------------------------------------------------------------------------------------
// C09 (latest insertion position): op lists and the scripts they stand for
// ---------------------------------------------------------------------------------------------
/// the script an op list stands for: op-level and event-level statements agree
pub proof fn lemma_ins_stuck_evs(rel: Rel, ops: Seq<DiffOp>)
  requires ins_stuck(rel, ops)
  ensures ev_stuck(rel, evs_of(ops)), ev_stuck(rel, evs_of(ops).push(Ev::Finish))
{
    let s = evs_of(ops); let s2 = s.push(Ev::Finish);
    assert forall|i: int| 0 <= i && i + 1 < s.len() implies #[trigger] ev_stuck_at(rel, s, i) by {
        assert(ins_stuck_at(rel, ops, i));
        assert(s[i] == ev_of(ops[i]) && s[i + 1] == ev_of(ops[i + 1]));
    }
    assert forall|i: int| 0 <= i && i + 1 < s2.len() implies #[trigger] ev_stuck_at(rel, s2, i) by {
        if i + 1 < s.len() {
            assert(ev_stuck_at(rel, s, i));
            assert(s2[i] == s[i] && s2[i + 1] == s[i + 1]);
        } else {
            assert(s2[i + 1] == Ev::Finish);
        }
    }
}

pub proof fn lemma_ev_late_ops(rel: Rel, ops: Seq<DiffOp>)
  requires ev_late(rel, evs_of(ops))
  ensures ins_late(rel, ops)
{
    let s = evs_of(ops);
    assert forall|i: int| 0 <= i < ops.len() implies #[trigger] ins_late_at(rel, ops, i) by {
        if i + 1 < ops.len() {
            assert(ev_late_at(rel, s, i));
            assert(s[i] == ev_of(ops[i]) && s[i + 1] == ev_of(ops[i + 1]));
        }
    }
}

} // verus!
