// src/algorithms/replace.rs
verus! {

//@@ item src/algorithms/replace.rs :: ^pub struct Replace
pub struct Replace<D: DiffHook> {
    d: D,
    del: Option<(usize, usize, usize)>,
    ins: Option<(usize, usize, usize)>,
    eq: Option<(usize, usize, usize)>,
}
//@@ end

//@@ item src/algorithms/replace.rs :: ^impl<D: DiffHook> Replace<D> rw=R0
impl<D: DiffHook> Replace<D> {
    /// Creates a new replace hook wrapping another hook.
    pub fn new(d: D) -> (res: Self)
    {
        Replace {
            d,
            del: None,
            ins: None,
            eq: None,
        }
    }

    /// Extracts the inner hook.
    pub fn into_inner(self) -> (res: D)
    {
        self.d
    }

    fn flush_eq(&mut self) -> (res: Result<(), D::Error>)
    {
        if let Some((eq_old_index, eq_new_index, eq_len)) = self.eq.take() {
            self.d.equal(eq_old_index, eq_new_index, eq_len)?
        }
        Ok(())
    }

    fn flush_del_ins(&mut self) -> (res: Result<(), D::Error>)
    {
        if let Some((del_old_index, del_old_len, del_new_index)) = self.del.take() {
            if let Some((_, ins_new_index, ins_new_len)) = self.ins.take() {
                self.d
                    .replace(del_old_index, del_old_len, ins_new_index, ins_new_len)?;
            } else {
                self.d.delete(del_old_index, del_old_len, del_new_index)?;
            }
        } else if let Some((ins_old_index, ins_new_index, ins_new_len)) = self.ins.take() {
            self.d.insert(ins_old_index, ins_new_index, ins_new_len)?;
        }
        Ok(())
    }
}
//@@ end

//@@ item src/algorithms/replace.rs :: ^impl<D: DiffHook> DiffHook for Replace<D> rw=R0,R3
impl<D: DiffHook> DiffHook for Replace<D> {
    type Error = D::Error;

    fn equal(&mut self, old_index: usize, new_index: usize, len: usize) -> (res: Result<(), D::Error>)
    {
        self.flush_del_ins()?;

        self.eq = if let Some((eq_old_index, eq_new_index, eq_len)) = self.eq.take() {
            Some((eq_old_index, eq_new_index, eq_len + len))
        } else {
            Some((old_index, new_index, len))
        };

        Ok(())
    }

    fn delete(
        &mut self,
        old_index: usize,
        old_len: usize,
        new_index: usize,
    ) -> (res: Result<(), D::Error>)
    {
        self.flush_eq()?;
        if let Some((del_old_index, del_old_len, del_new_index)) = self.del.take() {
            assert(old_index == del_old_index + del_old_len);
            self.del = Some((del_old_index, del_old_len + old_len, del_new_index));
        } else {
            self.del = Some((old_index, old_len, new_index));
        }
        Ok(())
    }

    fn insert(
        &mut self,
        old_index: usize,
        new_index: usize,
        new_len: usize,
    ) -> (res: Result<(), D::Error>)
    {
        self.flush_eq()?;
        self.ins = if let Some((ins_old_index, ins_new_index, ins_new_len)) = self.ins.take() {
            assert(ins_new_index + ins_new_len == new_index);
            Some((ins_old_index, ins_new_index, new_len + ins_new_len))
        } else {
            Some((old_index, new_index, new_len))
        };

        Ok(())
    }

    fn replace(
        &mut self,
        old_index: usize,
        old_len: usize,
        new_index: usize,
        new_len: usize,
    ) -> (res: Result<(), D::Error>)
    {
        self.flush_eq()?;
        self.d.replace(old_index, old_len, new_index, new_len)
    }

    fn finish(&mut self) -> (res: Result<(), D::Error>)
    {
        self.flush_eq()?;
        self.flush_del_ins()?;
        self.d.finish()
    }
}
//@@ end

} // verus!
