// src/algorithms/replace.rs
verus! {

/// what the inner hook records for one forwarded event / for a forwarded script
pub open spec fn sent_ev<D: DiffHook>(e: Ev) -> Seq<Ev> {
    match e { Ev::Replace(o, ol, n, nl) => replace_evs::<D>(o, ol, n, nl), _ => seq![e] }
}
pub open spec fn sent<D: DiffHook>(em: Seq<Ev>) -> Seq<Ev>
  decreases em.len()
{
    if em.len() == 0 { Seq::<Ev>::empty() } else { sent::<D>(em.drop_last()) + sent_ev::<D>(em.last()) }
}
pub proof fn lemma_sent_push<D: DiffHook>(em: Seq<Ev>, e: Ev)
  ensures sent::<D>(em.push(e)) == sent::<D>(em) + sent_ev::<D>(e)
{
    assert(em.push(e).drop_last() =~= em);
}

//@@ item src/algorithms/replace.rs :: ^pub struct Replace
pub struct Replace<D: DiffHook> {
    d: D,
    del: Option<(usize, usize, usize)>,
    ins: Option<(usize, usize, usize)>,
    eq: Option<(usize, usize, usize)>,
    /*@*/ hist: Ghost<Seq<Ev>>,   // every successful call received (ghost)
    /*@*/ rst0: Ghost<St>,        // checker state the first call is expected from; set by the creator (ghost)
    /*@*/ em: Ghost<Seq<Ev>>,     // what has been forwarded to the inner hook (ghost)
    /*@*/ it0: Ghost<Seq<Ev>>,    // the inner hook's history when this adapter was created (ghost)
    /*@*/ rel0: Ghost<Rel>,       // relation the incoming script is checked against when the inner hook does not rely; set by the creator (ghost)
}
//@@ end

//@@ item src/algorithms/replace.rs :: ^impl<D: DiffHook> Replace<D> rw=R0
impl<D: DiffHook> Replace<D> {
    /*@*/ pub closed spec fn inner(&self) -> D { self.d }
    /*@*/ pub closed spec fn hist_(&self) -> Seq<Ev> { self.hist@ }
    /*@*/ pub closed spec fn em_(&self) -> Seq<Ev> { self.em@ }
    /*@*/ pub closed spec fn it0_(&self) -> Seq<Ev> { self.it0@ }
    /*@*/ pub closed spec fn rst0_(&self) -> St { self.rst0@ }
    /*@*/ pub closed spec fn rel0_(&self) -> Rel { self.rel0@ }
    /*@*/ pub closed spec fn p_del(&self) -> Option<(usize, usize, usize)> { self.del }
    /*@*/ pub closed spec fn p_ins(&self) -> Option<(usize, usize, usize)> { self.ins }
    /*@*/ pub closed spec fn p_eq(&self) -> Option<(usize, usize, usize)> { self.eq }
    /*@*/ /// the relation the incoming script is checked against
    /*@*/ pub open spec fn rr(&self) -> Rel { if self.inner().relies() { self.inner().rely_rel() } else { self.rel0_() } }
    /*@*/ /// weak-checker state after everything received
    /*@*/ pub open spec fn rst(&self) -> St { run_rel(self.rr(), self.rst0_(), self.hist_()) }
    /*@*/ pub open spec fn x0(&self) -> Xs { xcanon(self.rst0_().oc, self.rst0_().nc, self.rst0_().oe, self.rst0_().ne, self.rst0_().lvl >= 1) }
    /*@*/ /// exact-checker state after everything forwarded
    /*@*/ pub open spec fn xs(&self) -> Xs { xrun(self.rr(), self.x0(), self.em_()) }
    /*@*/ pub open spec fn el(&self) -> int { match self.p_eq() { Some((o, n, l)) => l as int, None => 0 } }
    /*@*/ pub open spec fn dl(&self) -> int { match self.p_del() { Some((o, l, n)) => l as int, None => 0 } }
    /*@*/ pub open spec fn il(&self) -> int { match self.p_ins() { Some((o, n, l)) => l as int, None => 0 } }
    /*@*/ pub open spec fn idle(&self) -> bool { self.p_del() is None && self.p_ins() is None && self.p_eq() is None }
    /*@*/ /// I_R: forwarded script ++ pending calls == received script; the forwarded script is exact and in normal form
    /*@*/ pub open spec fn core(&self) -> bool {
    /*@*/     let rst = self.rst(); let xs = self.xs(); let r0 = self.rst0_();
    /*@*/     &&& start_ok0(r0)
    /*@*/     &&& rst.ok
    /*@*/     &&& self.inner().trace() == sent::<D>(self.em_()) + (if rst.fin { fin::<D>() } else { Seq::<Ev>::empty() })   // the inner hook was fresh
    /*@*/     &&& !self.inner().failed() && self.inner().accepts_replace()
    /*@*/     &&& xs.ok && xs.oc == rst.oc - self.el() - self.dl() && xs.nc == rst.nc - self.el() - self.il()
    /*@*/     &&& xs.dels == (rst.dels - r0.dels) - self.dl() && xs.inss == (rst.inss - r0.inss) - self.il() && xs.eqs == (rst.eqs - r0.eqs) - self.el()
    /*@*/     &&& (self.p_eq() matches Some((o, n, l)) ==> self.p_del() is None && self.p_ins() is None && l > 0 && o == xs.oc && n == xs.nc && xs.last != 1
    /*@*/             && rst.ro == rst.oc && rst.rn == rst.nc && (rst.lvl >= 1 ==> rst.po <= rst.oc && rst.pn <= rst.nc)
    /*@*/             && (forall|i: int| 0 <= i < l ==> #[trigger] relk(self.rr(), o as int, n as int, i)))
    /*@*/     &&& (self.p_del() matches Some((o, l, n)) ==> l > 0 && o == xs.oc && (rst.lvl >= 1 ==> rst.rn <= n && n <= rst.pn))
    /*@*/     &&& (self.p_ins() matches Some((o, n, l)) ==> l > 0 && n == xs.nc && (rst.lvl >= 1 ==> rst.ro <= o && o <= rst.po))
    /*@*/     &&& ((self.p_del() is Some || self.p_ins() is Some) ==> self.p_eq() is None && xs.last != 2 && rst.ro == xs.oc && rst.rn == xs.nc)
    /*@*/     &&& (rst.fin ==> self.idle())
    /*@*/     &&& (self.inner().relies() ==> self.inner().rely_st().ok && self.inner().rely_st().oc == xs.oc && self.inner().rely_st().nc == xs.nc
    /*@*/             && self.inner().rely_st().oe >= r0.oe && self.inner().rely_st().ne >= r0.ne && (self.inner().rely_st().lvl >= 1 ==> r0.lvl >= 1) && self.inner().rely_st().lvl <= 1
    /*@*/             && (!rst.fin ==> wf(self.inner().rely_st())))
    /*@*/ }
    /*@*/ /// C09 (latest insertion position), the forwarded script and the pending calls: a forwarded Insert that is directly followed by an Equal
    /*@*/ /// (forwarded or pending) cannot slide down across it; a pending pure insertion is the last call received
    /*@*/ pub open spec fn late_ok(&self) -> bool {
    /*@*/     let rel = self.rr(); let em = self.em_(); let h = self.hist_();
    /*@*/     &&& ev_late(rel, em)
    /*@*/     &&& (self.p_eq() matches Some((o, n, l)) ==> em.len() > 0 ==> differs_after(rel, em.last(), o))
    /*@*/     &&& (self.p_ins() matches Some((o, n, l)) ==> self.p_del() is None ==> h.len() > 0 && is_ins_at(h.last(), n))
    /*@*/ }
    /*@*/ /// ... provided the received script has every Insert directly in front of an Equal it cannot slide across (or last): what `Compact` sends
    /*@*/ pub open spec fn c9(&self) -> bool { ev_stuck(self.rr(), self.hist_()) ==> self.late_ok() }
    /*@*/ pub open spec fn inv(&self) -> bool {
    /*@*/     self.core() && (self.idle() && !self.rst().fin ==> self.hist_().len() == 0 && self.em_().len() == 0)
    /*@*/     && self.c9()   // [C09]
    /*@*/ }
    /*@*/ /// what `flush_del_ins` forwards for the pending calls
    /*@*/ pub open spec fn flushed_ev(del: Option<(usize, usize, usize)>, ins: Option<(usize, usize, usize)>) -> Ev {
    /*@*/     match (del, ins) {
    /*@*/         (Some((o, ol, dn)), Some((io, n, nl))) => Ev::Replace(o, ol, n, nl),
    /*@*/         (Some((o, ol, dn)), None) => Ev::Delete(o, ol, dn),
    /*@*/         (None, Some((io, n, nl))) => Ev::Insert(io, n, nl),
    /*@*/         (None, None) => Ev::Finish,
    /*@*/     }
    /*@*/ }
    /*@*/ /// after creation (the creator then assigns rst0 by a ghost assignment)
    /*@*/ pub open spec fn fresh(&self) -> bool {
    /*@*/     self.hist_() == Seq::<Ev>::empty() && self.em_() == Seq::<Ev>::empty() && self.idle()
    /*@*/ }
    /// Creates a new replace hook wrapping another hook.
    pub fn new(d: D) -> (res: Self)
    /*@*/     ensures res.fresh(), res.inner() == d,
    {
        Replace {
            d,
            del: None,
            ins: None,
            eq: None,
            /*@*/ hist: Ghost(Seq::empty()), rst0: Ghost(arbitrary()), em: Ghost(Seq::empty()), it0: Ghost(d.trace()), rel0: Ghost(arbitrary()),
        }
    }

    /// Extracts the inner hook.
    pub fn into_inner(self) -> (res: D)
    /*@*/     ensures res == self.inner(),
    {
        self.d
    }

    fn flush_eq(&mut self) -> (res: Result<(), D::Error>)
    /*@*/     requires old(self).core(), !old(self).rst().fin,
    /*@*/     ensures
    /*@*/         final(self).hist_() == old(self).hist_(), final(self).rst0_() == old(self).rst0_(), final(self).rel0_() == old(self).rel0_(),
    /*@*/         hook_frame(old(self).inner(), final(self).inner(), res), final(self).inner().fobs() == old(self).inner().fobs(), final(self).inner().config() == old(self).inner().config(),
    /*@*/         res.is_ok() ==> final(self).core() && final(self).p_eq() is None
    /*@*/             && final(self).p_del() == old(self).p_del() && final(self).p_ins() == old(self).p_ins()
    /*@*/             && (old(self).p_eq() is Some ==> final(self).xs().last == 1)
    /*@*/             && (old(self).p_eq() is None ==> final(self).em_() == old(self).em_())
    /*@*/             && (old(self).p_eq() matches Some((o, n, l)) ==> final(self).em_() == old(self).em_().push(Ev::Equal(o, n, l))),   // [C09]
    {
        if let Some((eq_old_index, eq_new_index, eq_len)) = self.eq.take() {
            /*@*/ let ghost e = Ev::Equal(eq_old_index, eq_new_index, eq_len);
            /*@*/ let ghost pre = *vstd::prelude::old(self);
            /*@*/ proof {
            /*@*/     lemma_xrun_mono(pre.rr(), pre.x0(), pre.em_());
            /*@*/     lemma_mono(pre.rr(), pre.rst0_(), pre.hist_());
            /*@*/     if self.d.relies() { lemma_step_exact(self.d.rely_rel(), self.d.rely_st(), e); }
            /*@*/ }
            self.d.equal(eq_old_index, eq_new_index, eq_len)?
        }
        /*@*/ proof {
        /*@*/     let pre = *vstd::prelude::old(self);
        /*@*/     if pre.p_eq() is Some {
        /*@*/         let e = Ev::Equal(pre.p_eq().unwrap().0, pre.p_eq().unwrap().1, pre.p_eq().unwrap().2);
        /*@*/         self.em@ = self.em@.push(e);
        /*@*/         lemma_xrun_push(pre.rr(), pre.x0(), pre.em_(), e);
        /*@*/         lemma_sent_push::<D>(pre.em_(), e);
        /*@*/         assert(sent::<D>(pre.em_()) + Seq::<Ev>::empty() =~= sent::<D>(pre.em_()));
        /*@*/         assert(sent::<D>(pre.em_()).push(e) =~= (sent::<D>(pre.em_()) + seq![e]) + Seq::<Ev>::empty());
        /*@*/     }
        /*@*/ }
        Ok(())
    }

    fn flush_del_ins(&mut self) -> (res: Result<(), D::Error>)
    /*@*/     requires old(self).core(), !old(self).rst().fin,
    /*@*/         // the run of changes is over: carried indices are resolved
    /*@*/         old(self).rst().lvl >= 1 ==> old(self).rst().po <= old(self).rst().oc && old(self).rst().pn <= old(self).rst().nc,
    /*@*/     ensures
    /*@*/         final(self).hist_() == old(self).hist_(), final(self).rst0_() == old(self).rst0_(), final(self).rel0_() == old(self).rel0_(),
    /*@*/         hook_frame(old(self).inner(), final(self).inner(), res), final(self).inner().fobs() == old(self).inner().fobs(), final(self).inner().config() == old(self).inner().config(),
    /*@*/         res.is_ok() ==> final(self).core() && final(self).p_del() is None && final(self).p_ins() is None && final(self).p_eq() == old(self).p_eq()
    /*@*/             && ((old(self).p_del() is Some || old(self).p_ins() is Some) ==> final(self).xs().last == 2)
    /*@*/             && ((old(self).p_del() is None && old(self).p_ins() is None) ==> final(self).em_() == old(self).em_())
    /*@*/             && ((old(self).p_del() is Some || old(self).p_ins() is Some) ==> final(self).em_() == old(self).em_().push(Self::flushed_ev(old(self).p_del(), old(self).p_ins()))),   // [C09]
    {
        /*@*/ let ghost pre = *vstd::prelude::old(self);
        /*@*/ proof {
        /*@*/     lemma_xrun_mono(pre.rr(), pre.x0(), pre.em_());
        /*@*/     lemma_mono(pre.rr(), pre.rst0_(), pre.hist_());
        /*@*/ }
        if let Some((del_old_index, del_old_len, del_new_index)) = self.del.take() {
            if let Some((_, ins_new_index, ins_new_len)) = self.ins.take() {
                /*@*/ let ghost e = Ev::Replace(del_old_index, del_old_len, ins_new_index, ins_new_len);
                /*@*/ proof { if self.d.relies() { lemma_step_exact(self.d.rely_rel(), self.d.rely_st(), e); } }
                self.d
                    .replace(del_old_index, del_old_len, ins_new_index, ins_new_len)?;
                /*@*/ proof {
                /*@*/     self.em@ = self.em@.push(e);
                /*@*/     lemma_xrun_push(pre.rr(), pre.x0(), pre.em_(), e);
                /*@*/     lemma_sent_push::<D>(pre.em_(), e);
                /*@*/     assert(sent::<D>(pre.em_()) + Seq::<Ev>::empty() =~= sent::<D>(pre.em_()));
                /*@*/     assert(sent::<D>(pre.em_()) + sent_ev::<D>(e) =~= (sent::<D>(pre.em_()) + sent_ev::<D>(e)) + Seq::<Ev>::empty());
                /*@*/     assert(seq![e] =~= Seq::<Ev>::empty().push(e));
                /*@*/ }
            } else {
                /*@*/ let ghost e = Ev::Delete(del_old_index, del_old_len, del_new_index);
                /*@*/ proof { if self.d.relies() { lemma_step_exact(self.d.rely_rel(), self.d.rely_st(), e); } }
                self.d.delete(del_old_index, del_old_len, del_new_index)?;
                /*@*/ proof {
                /*@*/     self.em@ = self.em@.push(e);
                /*@*/     lemma_xrun_push(pre.rr(), pre.x0(), pre.em_(), e);
                /*@*/     lemma_sent_push::<D>(pre.em_(), e);
                /*@*/     assert(sent::<D>(pre.em_()) + Seq::<Ev>::empty() =~= sent::<D>(pre.em_()));
                /*@*/     assert(sent::<D>(pre.em_()) + sent_ev::<D>(e) =~= (sent::<D>(pre.em_()) + sent_ev::<D>(e)) + Seq::<Ev>::empty());
                /*@*/     assert(seq![e] =~= Seq::<Ev>::empty().push(e));
                /*@*/ }
            }
        } else if let Some((ins_old_index, ins_new_index, ins_new_len)) = self.ins.take() {
            /*@*/ let ghost e = Ev::Insert(ins_old_index, ins_new_index, ins_new_len);
            /*@*/ proof { if self.d.relies() { lemma_step_exact(self.d.rely_rel(), self.d.rely_st(), e); } }
            self.d.insert(ins_old_index, ins_new_index, ins_new_len)?;
            /*@*/ proof {
            /*@*/     self.em@ = self.em@.push(e);
            /*@*/     lemma_xrun_push(pre.rr(), pre.x0(), pre.em_(), e);
            /*@*/     lemma_sent_push::<D>(pre.em_(), e);
            /*@*/     assert(sent::<D>(pre.em_()) + Seq::<Ev>::empty() =~= sent::<D>(pre.em_()));
            /*@*/     assert(sent::<D>(pre.em_()) + sent_ev::<D>(e) =~= (sent::<D>(pre.em_()) + sent_ev::<D>(e)) + Seq::<Ev>::empty());
            /*@*/     assert(seq![e] =~= Seq::<Ev>::empty().push(e));
            /*@*/ }
        }
        /*@*/ proof {
        /*@*/     let rst = self.rst(); let xs = self.xs(); let r0 = self.rst0_();
        /*@*/     assert(rst.ok);
        /*@*/     assert(self.inner().trace() == sent::<D>(self.em_()) + (if rst.fin { fin::<D>() } else { Seq::<Ev>::empty() }));
        /*@*/     assert(!self.inner().failed() && self.inner().accepts_replace());
        /*@*/     assert(xs.ok);
        /*@*/     assert(xs.oc == rst.oc - self.el() - self.dl() && xs.nc == rst.nc - self.el() - self.il());
        /*@*/     assert(xs.dels == (rst.dels - r0.dels) - self.dl() && xs.inss == (rst.inss - r0.inss) - self.il() && xs.eqs == (rst.eqs - r0.eqs) - self.el());
        /*@*/     assert(self.p_eq() matches Some((o, n, l)) ==> self.p_del() is None && self.p_ins() is None && l > 0 && o == xs.oc && n == xs.nc && xs.last != 1
        /*@*/             && rst.ro == rst.oc && rst.rn == rst.nc && (rst.lvl >= 1 ==> rst.po <= rst.oc && rst.pn <= rst.nc));
        /*@*/     assert(self.p_eq() matches Some((o, n, l)) ==> (forall|i: int| 0 <= i < l ==> #[trigger] relk(self.rr(), o as int, n as int, i)));
        /*@*/     assert(self.p_del() matches Some((o, l, n)) ==> l > 0 && o == xs.oc && (rst.lvl >= 1 ==> rst.rn <= n && n <= rst.pn));
        /*@*/     assert(self.p_ins() matches Some((o, n, l)) ==> l > 0 && n == xs.nc && (rst.lvl >= 1 ==> rst.ro <= o && o <= rst.po));
        /*@*/     assert((self.p_del() is Some || self.p_ins() is Some) ==> self.p_eq() is None && xs.last != 2 && rst.ro == xs.oc && rst.rn == xs.nc);
        /*@*/     assert(rst.fin ==> self.idle());
        /*@*/     assert(self.inner().relies() ==> self.inner().rely_st().ok && self.inner().rely_st().oc == xs.oc && self.inner().rely_st().nc == xs.nc);
        /*@*/     assert(self.inner().relies() ==> self.inner().rely_st().oe >= r0.oe && self.inner().rely_st().ne >= r0.ne && (self.inner().rely_st().lvl >= 1 ==> r0.lvl >= 1) && self.inner().rely_st().lvl <= 1);
        /*@*/     assert(self.inner().relies() ==> (!rst.fin ==> wf(self.inner().rely_st())));
        /*@*/ }
        Ok(())
    }
}
//@@ end

//@@ item src/algorithms/replace.rs :: ^impl<D: DiffHook> DiffHook for Replace<D> rw=R4i,R0,R3
impl<D: DiffHook> DiffHook for Replace<D> {
    type Error = D::Error;
    /*@*/ closed spec fn trace(&self) -> Seq<Ev> { self.hist_() }
    /*@*/ closed spec fn failed(&self) -> bool { self.inner().failed() }
    /*@*/ closed spec fn last_err(&self) -> Option<Self::Error> { self.inner().last_err() }
    /*@*/ closed spec fn relies(&self) -> bool { true }
    /*@*/ closed spec fn rely_rel(&self) -> Rel { self.rr() }
    /*@*/ /// the expected state is only acceptable (`ok`) while the adapter's invariant holds
    /*@*/ closed spec fn rely_st(&self) -> St { St { ok: self.inv(), ..self.rst() } }
    /*@*/ closed spec fn observes_finish() -> bool { true }
    /*@*/ closed spec fn replace_is_atomic() -> bool { true }
    /*@*/ /// `replace` on the Replace adapter (a pass-through that does not flush pending deletes/inserts) is outside
    /*@*/ /// the verified envelope: no verified caller can call it
    /*@*/ closed spec fn accepts_replace(&self) -> bool { false }
    /*@*/ #[verifier::prophetic] open spec fn fobs(&self) -> Seq<Obs<Self::Error>> { self.inner().fobs() }
    /*@*/ /// configuration: the creator's ghost assignments and the inner hook's configuration
    /*@*/ closed spec fn config(&self) -> Self {
    /*@*/     Replace { d: self.d.config(), del: None, ins: None, eq: None, hist: Ghost(Seq::empty()), em: Ghost(Seq::empty()), it0: Ghost(Seq::empty()), rst0: self.rst0, rel0: self.rel0 }
    /*@*/ }

    fn equal(&mut self, old_index: usize, new_index: usize, len: usize) -> (res: Result<(), D::Error>)
    {
        /*@*/ let ghost pre = *vstd::prelude::old(self);
        /*@*/ let ghost e = Ev::Equal(old_index, new_index, len);
        /*@*/ proof {
        /*@*/     reveal(step_rel);
        /*@*/     lemma_mono(pre.rr(), pre.rst0_(), pre.hist_());
        /*@*/     lemma_xrun_mono(pre.rr(), pre.x0(), pre.em_());
        /*@*/ }
        self.flush_del_ins()?;
        /*@*/ let ghost mid = *self;

        self.eq = if let Some((eq_old_index, eq_new_index, eq_len)) = self.eq.take() {
            Some((eq_old_index, eq_new_index, eq_len + len))
        } else {
            Some((old_index, new_index, len))
        };

        /*@*/ proof {
        /*@*/     self.hist@ = self.hist@.push(e);
        /*@*/     lemma_run_push(pre.rr(), pre.rst0_(), pre.hist_(), e);
        /*@*/     assert(mid.rr() == pre.rr() && self.rr() == pre.rr());
        /*@*/     if mid.p_eq() is Some {
        /*@*/         let eo = mid.p_eq().unwrap().0; let en = mid.p_eq().unwrap().1; let elen = mid.p_eq().unwrap().2;
        /*@*/         assert forall|i: int| 0 <= i < elen + len implies #[trigger] relk(self.rr(), eo as int, en as int, i) by {
        /*@*/             if i >= elen { assert(relk(pre.rr(), old_index as int, new_index as int, i - elen)); }
        /*@*/             else { assert(relk(mid.rr(), eo as int, en as int, i)); }
        /*@*/         }
        /*@*/     }
        /*@*/ }
        /*@*/
        /*@*/ proof {
        /*@*/     let rst = self.rst(); let xs = self.xs(); let r0 = self.rst0_();
        /*@*/     assert(rst.ok);
        /*@*/     assert(self.inner().trace() == sent::<D>(self.em_()) + (if rst.fin { fin::<D>() } else { Seq::<Ev>::empty() }));
        /*@*/     assert(!self.inner().failed() && self.inner().accepts_replace());
        /*@*/     assert(xs.ok);
        /*@*/     assert(xs.oc == rst.oc - self.el() - self.dl() && xs.nc == rst.nc - self.el() - self.il());
        /*@*/     assert(xs.dels == (rst.dels - r0.dels) - self.dl() && xs.inss == (rst.inss - r0.inss) - self.il() && xs.eqs == (rst.eqs - r0.eqs) - self.el());
        /*@*/     assert(self.p_eq() matches Some((o, n, l)) ==> self.p_del() is None && self.p_ins() is None && l > 0 && o == xs.oc && n == xs.nc && xs.last != 1
        /*@*/             && rst.ro == rst.oc && rst.rn == rst.nc && (rst.lvl >= 1 ==> rst.po <= rst.oc && rst.pn <= rst.nc));
        /*@*/     assert(self.p_eq() matches Some((o, n, l)) ==> (forall|i: int| 0 <= i < l ==> #[trigger] relk(self.rr(), o as int, n as int, i)));
        /*@*/     assert(self.p_del() matches Some((o, l, n)) ==> l > 0 && o == xs.oc && (rst.lvl >= 1 ==> rst.rn <= n && n <= rst.pn));
        /*@*/     assert(self.p_ins() matches Some((o, n, l)) ==> l > 0 && n == xs.nc && (rst.lvl >= 1 ==> rst.ro <= o && o <= rst.po));
        /*@*/     assert((self.p_del() is Some || self.p_ins() is Some) ==> self.p_eq() is None && xs.last != 2 && rst.ro == xs.oc && rst.rn == xs.nc);
        /*@*/     assert(rst.fin ==> self.idle());
        /*@*/     assert(self.inner().relies() ==> self.inner().rely_st().ok && self.inner().rely_st().oc == xs.oc && self.inner().rely_st().nc == xs.nc);
        /*@*/     assert(self.inner().relies() ==> self.inner().rely_st().oe >= r0.oe && self.inner().rely_st().ne >= r0.ne && (self.inner().rely_st().lvl >= 1 ==> r0.lvl >= 1) && self.inner().rely_st().lvl <= 1);
        /*@*/     assert(self.inner().relies() ==> (!rst.fin ==> wf(self.inner().rely_st())));
        /*@*/ }
        /*@*/
        /*@*/ proof {   // [C09]
        /*@*/     if ev_stuck(self.rr(), self.hist_()) {
        /*@*/         lemma_ev_stuck_prefix(pre.rr(), pre.hist_(), e);
        /*@*/         assert(pre.late_ok());
        /*@*/         if pre.p_del() is Some || pre.p_ins() is Some { lemma_ev_late_push(pre.rr(), pre.em_(), Self::flushed_ev(pre.p_del(), pre.p_ins())); }
        /*@*/         assert(self.late_ok());   // [C09]
        /*@*/     }
        /*@*/ }
        Ok(())
    }

    fn delete(
        &mut self,
        old_index: usize,
        old_len: usize,
        new_index: usize,
    ) -> (res: Result<(), D::Error>)
    {
        /*@*/ let ghost pre = *vstd::prelude::old(self);
        /*@*/ let ghost e = Ev::Delete(old_index, old_len, new_index);
        /*@*/ proof {
        /*@*/     reveal(step_rel);
        /*@*/     lemma_mono(pre.rr(), pre.rst0_(), pre.hist_());
        /*@*/     lemma_xrun_mono(pre.rr(), pre.x0(), pre.em_());
        /*@*/ }
        self.flush_eq()?;
        if let Some((del_old_index, del_old_len, del_new_index)) = self.del.take() {
            assert(old_index == del_old_index + del_old_len);
            self.del = Some((del_old_index, del_old_len + old_len, del_new_index));
        } else {
            self.del = Some((old_index, old_len, new_index));
        }
        /*@*/ proof {
        /*@*/     self.hist@ = self.hist@.push(e);
        /*@*/     lemma_run_push(pre.rr(), pre.rst0_(), pre.hist_(), e);
        /*@*/     assert(self.core());
        /*@*/ }
        /*@*/ proof {   // [C09]
        /*@*/     if ev_stuck(self.rr(), self.hist_()) {
        /*@*/         lemma_ev_stuck_prefix(pre.rr(), pre.hist_(), e);
        /*@*/         assert(pre.late_ok());
        /*@*/         if pre.p_eq() is Some { lemma_ev_late_push(pre.rr(), pre.em_(), Ev::Equal(pre.p_eq().unwrap().0, pre.p_eq().unwrap().1, pre.p_eq().unwrap().2)); }
        /*@*/         assert(self.late_ok());   // [C09]
        /*@*/     }
        /*@*/ }
        Ok(())
    }

    fn insert(
        &mut self,
        old_index: usize,
        new_index: usize,
        new_len: usize,
    ) -> (res: Result<(), D::Error>)
    {
        /*@*/ let ghost pre = *vstd::prelude::old(self);
        /*@*/ let ghost e = Ev::Insert(old_index, new_index, new_len);
        /*@*/ proof {
        /*@*/     reveal(step_rel);
        /*@*/     lemma_mono(pre.rr(), pre.rst0_(), pre.hist_());
        /*@*/     lemma_xrun_mono(pre.rr(), pre.x0(), pre.em_());
        /*@*/ }
        self.flush_eq()?;
        self.ins = if let Some((ins_old_index, ins_new_index, ins_new_len)) = self.ins.take() {
            assert(ins_new_index + ins_new_len == new_index);
            Some((ins_old_index, ins_new_index, new_len + ins_new_len))
        } else {
            Some((old_index, new_index, new_len))
        };

        /*@*/ proof {
        /*@*/     self.hist@ = self.hist@.push(e);
        /*@*/     lemma_run_push(pre.rr(), pre.rst0_(), pre.hist_(), e);
        /*@*/     assert(self.core());
        /*@*/ }
        /*@*/ proof {   // [C09]
        /*@*/     if ev_stuck(self.rr(), self.hist_()) {
        /*@*/         lemma_ev_stuck_prefix(pre.rr(), pre.hist_(), e);
        /*@*/         assert(pre.late_ok());
        /*@*/         if pre.p_eq() is Some { lemma_ev_late_push(pre.rr(), pre.em_(), Ev::Equal(pre.p_eq().unwrap().0, pre.p_eq().unwrap().1, pre.p_eq().unwrap().2)); }
        /*@*/         assert(self.late_ok());   // [C09]
        /*@*/     }
        /*@*/ }
        Ok(())
    }

    fn replace(
        &mut self,
        old_index: usize,
        old_len: usize,
        new_index: usize,
        new_len: usize,
    ) -> (res: Result<(), D::Error>)
    {
        self.flush_eq()?;
        self.d.replace(old_index, old_len, new_index, new_len)
    }

    fn finish(&mut self) -> (res: Result<(), D::Error>)
    {
        /*@*/ let ghost pre = *vstd::prelude::old(self);
        /*@*/ let ghost e = Ev::Finish;
        /*@*/ proof {
        /*@*/     reveal(step_rel);
        /*@*/     lemma_mono(pre.rr(), pre.rst0_(), pre.hist_());
        /*@*/     lemma_xrun_mono(pre.rr(), pre.x0(), pre.em_());
        /*@*/ }
        self.flush_eq()?;
        self.flush_del_ins()?;
        /*@*/ let ghost mid = *self;
        /*@*/ proof {
        /*@*/     self.hist@ = self.hist@.push(e);
        /*@*/     lemma_run_push(pre.rr(), pre.rst0_(), pre.hist_(), e);
        /*@*/ }
        /*@*/ proof {   // [C09]
        /*@*/     if ev_stuck(self.rr(), self.hist_()) {
        /*@*/         lemma_ev_stuck_prefix(pre.rr(), pre.hist_(), e);
        /*@*/         assert(pre.late_ok());
        /*@*/         let em1 = if pre.p_eq() is Some { pre.em_().push(Ev::Equal(pre.p_eq().unwrap().0, pre.p_eq().unwrap().1, pre.p_eq().unwrap().2)) } else { pre.em_() };
        /*@*/         if pre.p_eq() is Some { lemma_ev_late_push(pre.rr(), pre.em_(), Ev::Equal(pre.p_eq().unwrap().0, pre.p_eq().unwrap().1, pre.p_eq().unwrap().2)); }
        /*@*/         if pre.p_del() is Some || pre.p_ins() is Some { lemma_ev_late_push(pre.rr(), em1, Self::flushed_ev(pre.p_del(), pre.p_ins())); }
        /*@*/         assert(self.late_ok());   // [C09]
        /*@*/     }
        /*@*/ }
        self.d.finish()
    }
}
//@@ end

} // verus!
