// C06 -> C04 / C17: the partition clause proved for the tokenizers (cat_bytes / bcat, unit tok) is the hypothesis
// `tokens_partition` (contracts/tokpart.rs) of the reconstruction lemmas of units rmp / txi.  Pure ghost.
verus! {

pub open spec fn str_tok_bytes(toks: Seq<&str>) -> Seq<Seq<u8>> { toks.map_values(|t: &str| t.spec_bytes()) }
pub open spec fn u8_tok_bytes(toks: Seq<&[u8]>) -> Seq<Seq<u8>> { toks.map_values(|t: &[u8]| t@) }

proof fn lemma_tok_cat_bridge(toks: Seq<&str>)
  ensures cat(str_tok_bytes(toks), 0, toks.len() as int) == cat_bytes(toks)
  decreases toks.len()
{
    if toks.len() > 0 {
        let t = str_tok_bytes(toks); let n = toks.len() as int;
        lemma_tok_cat_bridge(toks.drop_last());
        assert(str_tok_bytes(toks.drop_last()) =~= t.drop_last());
        lemma_tokpart_cat_prefix(t, t.drop_last(), n - 1);
    }
}

/// `cat` only looks at the tokens below its upper index
proof fn lemma_tokpart_cat_prefix(a: Seq<Seq<u8>>, b: Seq<Seq<u8>>, k: int)
  requires 0 <= k <= a.len(), k <= b.len(), forall|i: int| 0 <= i < k ==> a[i] == b[i]
  ensures cat(a, 0, k) == cat(b, 0, k)
  decreases k
{
    if k > 0 { lemma_tokpart_cat_prefix(a, b, k - 1); }
}

/// what every str tokenizer under contract ensures (`cat_bytes(res@) == self.spec_bytes()`) is H-TOK
pub proof fn lemma_tok_partition_bridge(s: &str, toks: Seq<&str>)
  requires cat_bytes(toks) == s.spec_bytes()
  ensures tokens_partition(s.spec_bytes(), str_tok_bytes(toks))
{
    lemma_tok_cat_bridge(toks);
}

proof fn lemma_tokb_cat_bridge(toks: Seq<&[u8]>)
  ensures cat(u8_tok_bytes(toks), 0, toks.len() as int) == bcat(toks)
  decreases toks.len()
{
    if toks.len() > 0 {
        let t = u8_tok_bytes(toks); let n = toks.len() as int;
        lemma_tokb_cat_bridge(toks.drop_last());
        assert(u8_tok_bytes(toks.drop_last()) =~= t.drop_last());
        lemma_tokpart_cat_prefix(t, t.drop_last(), n - 1);
    }
}

/// the same for the [u8] tokenizers (`bcat(res@) == self@`)
pub proof fn lemma_tokb_partition_bridge(b: &[u8], toks: Seq<&[u8]>)
  requires bcat(toks) == b@
  ensures tokens_partition(b@, u8_tok_bytes(toks))
{
    lemma_tokb_cat_bridge(toks);
}

// The trait-level clause of `DiffableStr` (diffablestr.rs) `tokens_partition(self.bytes(), Seq::new(n, |i| res@[i].bytes()))`
// is derived from these two lemmas INSIDE the impl methods (one extensional-equality assertion each): a lemma that names
// `toks::<str>` or `<str as DiffableStr>::bytes` cannot be called from a method of `impl DiffableStr for str` (Verus: cyclic
// self-reference impl -> method -> lemma -> impl).

// tokenize_chars (ASSUMED contract, real body under external_body): the shape clause `chars_spec` / `bchars_spec` (one
// token per char) is the whole content of the assumption - the other two trait-level clauses (partition, non-empty) follow
// from it, with the cut points 0, 1, .., n:

pub proof fn lemma_tok_chars_partition(s: &str, r: Seq<&str>)
  requires chars_spec(s, r)
  ensures cat_bytes(r) == s.spec_bytes(), forall|k: int| 0 <= k < r.len() ==> (#[trigger] r[k]).spec_bytes().len() > 0,
      tokens_partition(s.spec_bytes(), str_tok_bytes(r))
{
    let c = Seq::new(r.len() + 1, |i: int| i);
    assert(partition(s, r, c));
    lemma_tok_partition_concat(s, r, c);
    lemma_tok_partition_bridge(s, r);
}

pub proof fn lemma_tokb_chars_partition(b: &[u8], r: Seq<&[u8]>)
  requires bchars_spec(b@, r)
  ensures bcat(r) == b@, forall|k: int| 0 <= k < r.len() ==> (#[trigger] r[k])@.len() > 0,
      tokens_partition(b@, u8_tok_bytes(r))
{
    let c = Seq::new(r.len() + 1, |i: int| i);
    assert(bpartition(b@, r, c));
    lemma_tokb_partition_concat(b@, r, c);
    lemma_tokb_partition_bridge(b, r);
}

} // verus!
