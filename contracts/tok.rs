// unit `tok`: the tokenizers of src/text/abstraction.rs (property C06): `impl DiffableStr for str` (tokens.rs) and
// `impl DiffableStr for [u8]` in `mod bytes_support` (tokens_bytes.rs): tokenize_lines, tokenize_lines_and_newlines,
// tokenize_words.  Not covered: tokenize_chars, tokenize_unicode_words, tokenize_graphemes.
// (tools/vx.py names the functions of `impl DiffableStr for [u8]` `DiffableStr::tokenize_*`, like the trait's
// declarations: its impl-header pattern does not read `[u8]`.)
//@@ include tokens.rs
//@@ include tokens_bytes.rs
//@@ include tokpart.rs
//@@ include tokbridge.rs
//@@ props ^DiffableStr for str::tokenize_ : C06
//@@ props ^DiffableStr::tokenize_ : C06
//@@ props ^lemma_tok_|^lemma_tokb_|^lemma_tokpart_ : C06 C04 C17
fn main() {}
