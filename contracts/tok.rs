// unit `tok`: the str tokenizers of src/text/abstraction.rs (property C06)
//@@ include tokens.rs
//@@ props ^DiffableStr for str::tokenize_ : C06
//@@ props ^lemma_tok_ : C06
fn main() {}
