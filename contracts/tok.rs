// unit `tok`: the tokenizers of src/text/abstraction.rs (property C06): `impl DiffableStr for str` (tokens.rs) and
// `impl DiffableStr for [u8]` in `mod bytes_support` (tokens_bytes.rs): tokenize_lines, tokenize_lines_and_newlines,
// tokenize_words are verified against their impl-level contracts AND against the trait-level contract of diffablestr.rs
// (what the generic text entry points of unit txt rely on); `len` (both) and `slice` of [u8] are verified against the
// trait-level contract too.  ASSUMED (real bodies kept, external_body): tokenize_chars (both; iterator map + collect) and
// `slice` of str (H-DS: char boundaries).  Not covered: tokenize_unicode_words, tokenize_graphemes.
// (tools/vx.py names the functions of `impl DiffableStr for [u8]` `DiffableStr::tokenize_*`, like the trait's
// declarations: its impl-header pattern does not read `[u8]`.)
//@@ include tokpart.rs
//@@ include diffablestr.rs
//@@ include tokens.rs
//@@ include tokens_bytes.rs
//@@ include tokbridge.rs
//@@ props ^DiffableStr for str::tokenize_ : C06 C04 C17
//@@ props ^DiffableStr::tokenize_ : C06 C04 C17
//@@ props ^DiffableStr for str::(len|slice)$|^DiffableStr::(len|slice)$ : C17 C04
//@@ props ^DiffableStrRef for T::as_diffable_str$ : C04
//@@ props ^lemma_tok_|^lemma_tokb_|^lemma_tokpart_ : C06 C04 C17
fn main() {}
