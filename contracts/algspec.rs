// Contract vocabulary shared by the three algorithms (DESIGN.md section 4/5, C01 C07 C08)
verus! {

/// the checking level an algorithm guarantees: fully exact carried indices unless a deadline may cut the search short
/// (the fallback then emits an Insert that carries the start of the deleted block)
pub open spec fn alg_lvl(deadline: Option<Instant>) -> int { if deadline is None { 2 } else { 1 } }

/// per algorithm: LCS reports exact carried indices on its give-up path too (it deletes the rest, advances, then inserts);
/// Myers (and Patience, which runs Myers) only when no deadline can cut the search short
pub open spec fn lvl_of(alg: Algorithm, deadline: Option<Instant>) -> int { if alg == Algorithm::Lcs { 2 } else { alg_lvl(deadline) } }

/// the size bound under which machine arithmetic is checked (assumption 6 of DESIGN.md section 6)
pub open spec fn size_ok(or: Range<usize>, nr: Range<usize>) -> bool {
    (or.end - or.start) + (nr.end - nr.start) + 4 <= isize::MAX
}

pub open spec fn box_pre<Old: Index<usize> + ?Sized, New: Index<usize> + ?Sized>(old: &Old, or: Range<usize>, new: &New, nr: Range<usize>) -> bool {
    or.start <= or.end && nr.start <= nr.end && inb(old, or) && inb(new, nr) && size_ok(or, nr)
}

/// what a relying hook must be expecting when an algorithm starts on the box (or, nr)
pub open spec fn rely_pre<Old: Index<usize> + ?Sized, New: Index<usize> + ?Sized, D: DiffHook>(d: D, old: &Old, or: Range<usize>, new: &New, nr: Range<usize>, lvl: int) -> bool
  where New::Output: PartialEq<Old::Output>
{
    d.relies() ==> rel_implies(rel_of(old, new), d.rely_rel()) && wf(d.rely_st())
        && d.rely_st().oc == or.start && d.rely_st().nc == nr.start && d.rely_st().oe >= or.end && d.rely_st().ne >= nr.end && d.rely_st().lvl <= lvl
}

pub open spec fn diff_pre<Old: Index<usize> + ?Sized, New: Index<usize> + ?Sized, D: DiffHook>(d: D, old: &Old, or: Range<usize>, new: &New, nr: Range<usize>, lvl: int) -> bool
  where New::Output: PartialEq<Old::Output>
{
    !d.failed() && box_pre(old, or, new, nr) && rely_pre(d, old, or, new, nr, lvl)
}

/// C08: the hook is failed exactly when the call returns an error, and that error is the hook's;
/// on success its rely relation / replace capability are unchanged
pub open spec fn err_post<D: DiffHook>(d0: D, d1: D, res: Result<(), D::Error>) -> bool {
    d1.failed() == res.is_err() && (res matches Err(e) ==> d1.last_err() == Some(e))
    && (res.is_ok() ==> d1.relies() == d0.relies() && d1.rely_rel() == d0.rely_rel() && d1.accepts_replace() == d0.accepts_replace())
}

/// C01: on success the hook has received exactly a valid script segment for the box, then `tail`
pub open spec fn seg_post<Old: Index<usize> + ?Sized, New: Index<usize> + ?Sized, D: DiffHook>(
    d0: D, d1: D, old: &Old, or: Range<usize>, new: &New, nr: Range<usize>, lvl: int, optimal: bool, tail: Seq<Ev>, is_ok: bool) -> bool
  where New::Output: PartialEq<Old::Output>
{
    is_ok ==> exists|s: Seq<Ev>| #[trigger] seg(old, new, lvl, s, or.start as int, nr.start as int, or.end as int, nr.end as int)
        && d1.trace() == d0.trace() + s + tail
        && (d0.relies() ==> d1.rely_st() == run_rel(d0.rely_rel(), d0.rely_st(), s + tail))
        // C03: the number of items reported equal is the length of a longest common subsequence
        && (optimal ==> seg_eqs(rel_of(old, new), lvl, s, or.start as int, nr.start as int, or.end as int, nr.end as int)
                == lcs_len(old, or.start as int, or.end as int, new, nr.start as int, nr.end as int))
}

pub proof fn lemma_run_fin<D: DiffHook>(rel: Rel, st: St, s: Seq<Ev>)
  ensures run_rel(rel, st, s + fin::<D>()) == (if D::observes_finish() { step_rel(rel, run_rel(rel, st, s), Ev::Finish) } else { run_rel(rel, st, s) })
{
    if D::observes_finish() {
        assert(s + fin::<D>() =~= s.push(Ev::Finish));
        lemma_run_push(rel, st, s, Ev::Finish);
    } else {
        assert(s + fin::<D>() =~= s);
    }
}

/// the algorithm postconditions only look at the observable state of the hook
pub proof fn lemma_post_transfer<Old: Index<usize> + ?Sized, New: Index<usize> + ?Sized, D: DiffHook>(
    d0: D, x: D, f: D, old: &Old, or: Range<usize>, new: &New, nr: Range<usize>, lvl: int, optimal: bool, tail: Seq<Ev>, res: Result<(), D::Error>)
  where New::Output: PartialEq<Old::Output>
  requires obs_now(x) == obs_now(f), err_post(d0, x, res), seg_post(d0, x, old, or, new, nr, lvl, optimal, tail, res.is_ok())
  ensures err_post(d0, f, res), seg_post(d0, f, old, or, new, nr, lvl, optimal, tail, res.is_ok())
{
    if res.is_ok() {
        let s = choose|s: Seq<Ev>| #[trigger] seg(old, new, lvl, s, or.start as int, nr.start as int, or.end as int, nr.end as int)
            && x.trace() == d0.trace() + s + tail && (d0.relies() ==> x.rely_st() == run_rel(d0.rely_rel(), d0.rely_st(), s + tail))
            && (optimal ==> seg_eqs(rel_of(old, new), lvl, s, or.start as int, nr.start as int, or.end as int, nr.end as int)
                    == lcs_len(old, or.start as int, or.end as int, new, nr.start as int, nr.end as int));
        assert(f.trace() == d0.trace() + s + tail);
    }
}

/// the running invariant of an algorithm body: the hook has received the segment `s` so far
pub open spec fn alg_inv<D: DiffHook>(d: D, d0: D, t0: Seq<Ev>, s: Seq<Ev>, rel: Rel, lvl: int, rs0: St, o0: int, n0: int, oc: int, nc: int) -> bool {
    seg_rel(rel, lvl, s, o0, n0, oc, nc) && d.trace() == t0 + s && !d.failed() && d.relies() == d0.relies() && d.rely_rel() == d0.rely_rel() && d.accepts_replace() == d0.accepts_replace()
    && (d0.relies() ==> d.rely_st() == run_rel(d0.rely_rel(), rs0, s))
}

} // verus!
