// src/algorithms/patience.rs and the unique-item helpers of src/algorithms/utils.rs
verus! {

//@@ item src/algorithms/utils.rs :: ^pub struct UniqueItem
pub struct UniqueItem<'a, Idx: ?Sized> {
    lookup: &'a Idx,
    index: usize,
}
/*@*/ impl<'a, Idx: ?Sized + Index<usize>> UniqueItem<'a, Idx> {
/*@*/     pub closed spec fn idx(&self) -> usize { self.index }
/*@*/     pub closed spec fn lk(&self) -> &'a Idx { self.lookup }
/*@*/ }
//@@ end

//@@ item src/algorithms/utils.rs :: ^impl<Idx: \?Sized> UniqueItem<'_, Idx> rw=R0
impl<Idx: ?Sized> UniqueItem<'_, Idx>
where
    Idx: Index<usize>,
{
    /// Returns the value.
    #[inline(always)]
    pub fn value(&self) -> (res: &Idx::Output)
    /*@*/     requires self.lk().index_req(&self.idx()),
    /*@*/     ensures res == item_at(self.lk(), self.idx()),
    {
        /*@*/ broadcast use axiom_pure_index;
        &self.lookup[self.index]
    }

    /// Returns the original index.
    #[inline(always)]
    pub fn original_index(&self) -> (res: usize)
    /*@*/     ensures res == self.idx(),
    {
        self.index
    }
}
//@@ end

//@@ item src/algorithms/utils.rs :: ^impl<'a, 'b, A, B> PartialEq<UniqueItem<'a, A>> for UniqueItem<'b, B> rw=R0
/*@*/ impl<'a, 'b, A, B> vstd::std_specs::cmp::PartialEqSpecImpl<UniqueItem<'a, A>> for UniqueItem<'b, B>
/*@*/ where
/*@*/     A: Index<usize> + 'b + ?Sized,
/*@*/     B: Index<usize> + 'b + ?Sized,
/*@*/     B::Output: PartialEq<A::Output>,
/*@*/ {
/*@*/     // no claim is made about this equality beyond the purity axiom (Patience re-checks real equality)
/*@*/     open spec fn obeys_eq_spec() -> bool { false }
/*@*/     open spec fn eq_spec(&self, other: &UniqueItem<'a, A>) -> bool { arbitrary() }
/*@*/ }
impl<'a, 'b, A, B> PartialEq<UniqueItem<'a, A>> for UniqueItem<'b, B>
where
    A: Index<usize> + 'b + ?Sized,
    B: Index<usize> + 'b + ?Sized,
    B::Output: PartialEq<A::Output>,
{
    #[inline(always)]
    /*@*/ #[verifier::external_body]  // assumed panic-free: both items index valid positions of their lookups (that is `unique`'s contract); no claim about the result
    fn eq(&self, other: &UniqueItem<'a, A>) -> (res: bool)
    {
        self.value() == other.value()
    }
}
//@@ end

//@@ item src/algorithms/utils.rs :: ^pub fn unique<Idx> rw=R0
/*@*/ /// the list is strictly increasing in original index and stays inside [lo, hi)
/*@*/ pub open spec fn uniq_ok<Idx: ?Sized + Index<usize>>(items: Seq<UniqueItem<Idx>>, lo: int, hi: int) -> bool {
/*@*/     (forall|j: int| 0 <= j < items.len() ==> lo <= (#[trigger] items[j]).idx() < hi)
/*@*/     && (forall|j: int, k: int| 0 <= j < k < items.len() ==> (#[trigger] items[j]).idx() < (#[trigger] items[k]).idx())
/*@*/ }
/*@*/ /// a strictly increasing list inside [lo, hi) has at most hi - lo entries
/*@*/ pub proof fn lemma_uniq_len<Idx: ?Sized + Index<usize>>(items: Seq<UniqueItem<Idx>>, lo: int, hi: int)
/*@*/   requires uniq_ok(items, lo, hi), lo <= hi
/*@*/   ensures items.len() <= hi - lo
/*@*/   decreases items.len()
/*@*/ {
/*@*/     if items.len() > 0 {
/*@*/         let k = items.len() - 1;
/*@*/         assert(uniq_ok(items.drop_last(), lo, items[k].idx() as int)) by {
/*@*/             assert forall|j: int| 0 <= j < items.drop_last().len() implies lo <= (#[trigger] items.drop_last()[j]).idx() < items[k].idx() by {
/*@*/                 assert(items.drop_last()[j] == items[j]);
/*@*/             }
/*@*/             assert forall|j: int, q: int| 0 <= j < q < items.drop_last().len() implies (#[trigger] items.drop_last()[j]).idx() < (#[trigger] items.drop_last()[q]).idx() by {
/*@*/                 assert(items.drop_last()[j] == items[j]); assert(items.drop_last()[q] == items[q]);
/*@*/             }
/*@*/         }
/*@*/         lemma_uniq_len(items.drop_last(), lo, items[k].idx() as int);
/*@*/     }
/*@*/ }
/*@*/ #[verifier::external_body]  // assumed contract: HashMap entry API + iterator chain + sort_by_key are outside Verus
pub fn unique<Idx>(lookup: &Idx, range: Range<usize>) -> (res: Vec<UniqueItem<Idx>>)
where
    Idx: Index<usize> + ?Sized,
    Idx::Output: Hash + Eq,
/*@*/     requires range.start <= range.end, inb(lookup, range),
/*@*/     ensures uniq_ok(res@, range.start as int, range.end as int),
{
    let mut by_item = HashMap::new();
    for index in range {
        match by_item.entry(&lookup[index]) {
            Entry::Vacant(entry) => {
                entry.insert(Some(index));
            }
            Entry::Occupied(mut entry) => {
                let entry = entry.get_mut();
                if entry.is_some() {
                    *entry = None
                }
            }
        }
    }
    let mut rv = by_item
        .into_iter()
        .filter_map(|(_, x)| x)
        .map(|index| UniqueItem { lookup, index })
        .collect::<Vec<_>>();
    rv.sort_by_key(|a| a.original_index());
    rv
}
//@@ end

pub mod patience {
use super::*;

//@@ item src/algorithms/patience.rs :: ^struct Patience
struct Patience<'old, 'new, 'd, Old: ?Sized, New: ?Sized, D> {
    d: &'d mut D,
    old: &'old Old,
    old_current: usize,
    old_end: usize,
    old_indexes: &'old [UniqueItem<'old, Old>],
    new: &'new New,
    new_current: usize,
    new_end: usize,
    new_indexes: &'new [UniqueItem<'new, New>],
    deadline: Option<Instant>,
    /*@*/ hist: Ghost<Seq<Ev>>,   // calls received from the driver (ghost)
    /*@*/ d0: Ghost<D>,           // the user's hook as it was at creation (ghost)
    /*@*/ s: Ghost<Seq<Ev>>,      // script forwarded to the user's hook so far (ghost)
    /*@*/ o0: Ghost<int>, n0: Ghost<int>,   // start of the user's box (ghost)
}
//@@ end

//@@ item src/algorithms/patience.rs :: ^impl<'old, 'new, 'd, Old, New, D> DiffHook for Patience rw=R4i,R0,R8
/*@*/ impl<'old, 'new, 'd, Old, New, D> Patience<'old, 'new, 'd, Old, New, D>
/*@*/ where
/*@*/     D: DiffHook + 'd,
/*@*/     Old: Index<usize> + ?Sized + 'old,
/*@*/     New: Index<usize> + ?Sized + 'new,
/*@*/     New::Output: PartialEq<Old::Output>,
/*@*/ {
/*@*/     #[verifier::prophetic] spec fn fo(&self) -> Seq<Obs<D::Error>> { seq![obs_now(mut_ref_future(self.d))] + mut_ref_future(self.d).fobs() }
/*@*/     spec fn rst0(&self) -> St { canon(0, 0, self.old_indexes@.len() as int, self.new_indexes@.len() as int) }
/*@*/     spec fn rst(&self) -> St { run_rel(rel_true(), self.rst0(), self.hist@) }
/*@*/     spec fn ubox_o(&self) -> Range<usize> { (self.o0@ as usize)..self.old_end }
/*@*/     spec fn ubox_n(&self) -> Range<usize> { (self.n0@ as usize)..self.new_end }
/*@*/     /// the part that never changes
/*@*/     spec fn frame_ok(&self) -> bool {
/*@*/         &&& 0 <= self.o0@ <= self.old_end && 0 <= self.n0@ <= self.new_end && self.old_indexes@.len() <= usize::MAX && self.new_indexes@.len() <= usize::MAX
/*@*/         &&& uniq_ok(self.old_indexes@, self.o0@, self.old_end as int) && uniq_ok(self.new_indexes@, self.n0@, self.new_end as int)
/*@*/         &&& box_pre(self.old, self.ubox_o(), self.new, self.ubox_n())
/*@*/         &&& rely_pre(self.d0@, self.old, self.ubox_o(), self.new, self.ubox_n(), alg_lvl(self.deadline))
/*@*/     }
/*@*/     /// the user's hook has received a valid script from the box start up to (uo, un)
/*@*/     spec fn fed(&self, uo: int, un: int) -> bool {
/*@*/         alg_inv(*self.d, self.d0@, self.d0@.trace(), self.s@, rel_of(self.old, self.new), alg_lvl(self.deadline), self.d0@.rely_st(), self.o0@, self.n0@, uo, un)
/*@*/     }
/*@*/     /// everything that does not depend on how far the driver has got
/*@*/     spec fn base(&self) -> bool {
/*@*/         &&& self.o0@ <= self.old_current <= self.old_end && self.n0@ <= self.new_current <= self.new_end
/*@*/         &&& self.frame_ok() && self.fed(self.old_current as int, self.new_current as int)
/*@*/     }
/*@*/     /// the unique items not yet handed over by the driver lie at or after the current position
/*@*/     spec fn ahead(&self, oc: int, nc: int) -> bool {
/*@*/         (forall|j: int| oc <= j < self.old_indexes@.len() ==> self.old_current <= (#[trigger] self.old_indexes@[j]).idx())
/*@*/         && (forall|j: int| nc <= j < self.new_indexes@.len() ==> self.new_current <= (#[trigger] self.new_indexes@[j]).idx())
/*@*/     }
/*@*/     spec fn inv(&self) -> bool {
/*@*/         let rst = self.rst();
/*@*/         rst.ok && (!rst.fin ==> self.base() && self.ahead(rst.oc, rst.nc))
/*@*/         && (rst.fin ==> self.done())
/*@*/     }
/*@*/     /// after `finish`: the user's hook has received a complete valid script and its finish
/*@*/     spec fn done(&self) -> bool {
/*@*/         hook_frame(self.d0@, *self.d, Ok::<(), D::Error>(()))
/*@*/         && seg_post(self.d0@, *self.d, self.old, self.ubox_o(), self.new, self.ubox_n(), alg_lvl(self.deadline), false, fin::<D>(), true)
/*@*/     }
/*@*/ }
impl<'old, 'new, 'd, Old, New, D> DiffHook for Patience<'old, 'new, 'd, Old, New, D>
where
    D: DiffHook + 'd,
    Old: Index<usize> + ?Sized + 'old,
    New: Index<usize> + ?Sized + 'new,
    New::Output: PartialEq<Old::Output>,
{
    type Error = D::Error;
    /*@*/ closed spec fn trace(&self) -> Seq<Ev> { self.hist@ }
    /*@*/ closed spec fn failed(&self) -> bool { (*self.d).failed() }
    /*@*/ closed spec fn last_err(&self) -> Option<Self::Error> { (*self.d).last_err() }
    /*@*/ closed spec fn relies(&self) -> bool { true }
    /*@*/ closed spec fn rely_rel(&self) -> Rel { rel_true() }
    /*@*/ closed spec fn rely_st(&self) -> St { St { ok: self.inv(), ..self.rst() } }
    /*@*/ closed spec fn observes_finish() -> bool { true }
    /*@*/ closed spec fn replace_is_atomic() -> bool { false }
    /*@*/ open spec fn accepts_replace(&self) -> bool { true }
    /*@*/ #[verifier::prophetic] closed spec fn fobs(&self) -> Seq<Obs<Self::Error>> { self.fo() }
    /*@*/ /// configuration: everything but the cursors, the borrowed hook and the ghost histories
    /*@*/ closed spec fn config(&self) -> Self {
    /*@*/     Patience { d: arbitrary(), old_current: 0, new_current: 0, hist: Ghost(Seq::empty()), s: Ghost(Seq::empty()), ..*self }
    /*@*/ }
    /*@*/ #[verifier::external_body]  // assumed contract: see DESIGN.md section 5 C01 (Verus limitation: &mut stored in NoFinishHook passed to generic code)
    fn equal(&mut self, old: usize, new: usize, len: usize) -> (res: Result<(), D::Error>)
    {
        for (old, new) in (old..old + len).zip(new..new + len)
        {
            let a0 = self.old_current;
            let b0 = self.new_current;
            while self.old_current < self.old_indexes[old].original_index()
                && self.new_current < self.new_indexes[new].original_index()
                && self.new[self.new_current] == self.old[self.old_current]
            {
                self.old_current += 1;
                self.new_current += 1;
            }
            if self.old_current > a0 {
                self.d.equal(a0, b0, self.old_current - a0)?;
            }
            let mut no_finish_d = NoFinishHook::new(&mut self.d);
            myers::diff_deadline(
                &mut no_finish_d,
                self.old,
                self.old_current..self.old_indexes[old].original_index(),
                self.new,
                self.new_current..self.new_indexes[new].original_index(),
                self.deadline,
            )?;
            self.old_current = self.old_indexes[old].original_index();
            self.new_current = self.new_indexes[new].original_index();
        }
        Ok(())
    }

    fn finish(&mut self) -> (res: Result<(), D::Error>)
    {
        /*@*/ let ghost pre = *vstd::prelude::old(self);
        /*@*/ let ghost e = Ev::Finish;
        /*@*/ let ghost rel = rel_of(self.old, self.new); let ghost lvl = alg_lvl(self.deadline);
        /*@*/ let ghost dmid = *self.d;
        /*@*/ proof {
        /*@*/     reveal(step_rel);
        /*@*/     self.hist@ = self.hist@.push(e);
        /*@*/     lemma_run_push(rel_true(), pre.rst0(), pre.hist@, e);
        /*@*/     let d0 = pre.d0@; let s = pre.s@; let r1 = d0.rely_rel(); let rs0 = d0.rely_st();
        /*@*/     let oc = pre.old_current as int; let nc = pre.new_current as int;
        /*@*/     if d0.relies() { lemma_seg_any(rel, r1, lvl, s, pre.o0@, pre.n0@, oc, nc, rs0); lemma_mono(r1, rs0, s); }
        /*@*/     // whatever state the user's hook is left in by the call below, if it satisfies the callee's
        /*@*/     // postcondition then the whole script is complete
        /*@*/     assert forall|d1: D| #[trigger] seg_post(dmid, d1, pre.old, (pre.old_current..pre.old_end), pre.new, (pre.new_current..pre.new_end), lvl, pre.deadline is None, fin::<D>(), true)
        /*@*/         && err_post(dmid, d1, Ok::<(), D::Error>(()))
        /*@*/         implies seg_post(d0, d1, pre.old, pre.ubox_o(), pre.new, pre.ubox_n(), lvl, false, fin::<D>(), true) && hook_frame(d0, d1, Ok::<(), D::Error>(())) by {
        /*@*/         let s2 = choose|q: Seq<Ev>| #[trigger] seg(pre.old, pre.new, lvl, q, oc, nc, pre.old_end as int, pre.new_end as int)
        /*@*/             && d1.trace() == dmid.trace() + q + fin::<D>() && (dmid.relies() ==> d1.rely_st() == run_rel(dmid.rely_rel(), dmid.rely_st(), q + fin::<D>()));
        /*@*/         lemma_seg_concat(rel, lvl, s, s2, pre.o0@, pre.n0@, oc, nc, pre.old_end as int, pre.new_end as int);
        /*@*/         assert(d0.trace() + s + s2 + fin::<D>() =~= d0.trace() + (s + s2) + fin::<D>());
        /*@*/         lemma_run_concat(r1, rs0, s, s2 + fin::<D>());
        /*@*/         assert(s + (s2 + fin::<D>()) =~= (s + s2) + fin::<D>());
        /*@*/         assert(seg(pre.old, pre.new, lvl, s + s2, pre.o0@, pre.n0@, pre.old_end as int, pre.new_end as int));
        /*@*/     }
        /*@*/ }
        myers::diff_deadline(
            self.d,
            self.old,
            self.old_current..self.old_end,
            self.new,
            self.new_current..self.new_end,
            self.deadline,
        )
    }

    fn delete(
        &mut self,
        old_index: usize,
        old_len: usize,
        new_index: usize,
    ) -> (res: Result<(), Self::Error>)
    {
        /*@*/ let ghost pre = *vstd::prelude::old(self);
        /*@*/ let ghost e = Ev::Delete(old_index, old_len, new_index);
        /*@*/ proof {
        /*@*/     reveal(step_rel);
        /*@*/     self.hist@ = self.hist@.push(e);
        /*@*/     lemma_run_push(rel_true(), pre.rst0(), pre.hist@, e);
        /*@*/     lemma_mono(rel_true(), pre.rst0(), pre.hist@);
        /*@*/     assert(self.rst() == step_rel(rel_true(), pre.rst(), e));
        /*@*/     assert(self.base() == pre.base());
        /*@*/     assert(self.ahead(self.rst().oc, self.rst().nc));
        /*@*/ }
        let _ = old_index;
        let _ = old_len;
        let _ = new_index;
        Ok(())
    }

    fn insert(
        &mut self,
        old_index: usize,
        new_index: usize,
        new_len: usize,
    ) -> (res: Result<(), Self::Error>)
    {
        /*@*/ let ghost pre = *vstd::prelude::old(self);
        /*@*/ let ghost e = Ev::Insert(old_index, new_index, new_len);
        /*@*/ proof {
        /*@*/     reveal(step_rel);
        /*@*/     self.hist@ = self.hist@.push(e);
        /*@*/     lemma_run_push(rel_true(), pre.rst0(), pre.hist@, e);
        /*@*/     lemma_mono(rel_true(), pre.rst0(), pre.hist@);
        /*@*/     assert(self.rst() == step_rel(rel_true(), pre.rst(), e));
        /*@*/     assert(self.base() == pre.base());
        /*@*/     assert(self.ahead(self.rst().oc, self.rst().nc));
        /*@*/ }
        let _ = old_index;
        let _ = new_index;
        let _ = new_len;
        Ok(())
    }

    fn replace(
        &mut self,
        old_index: usize,
        old_len: usize,
        new_index: usize,
        new_len: usize,
    ) -> (res: Result<(), Self::Error>)
    {
        /*@*/ proof { reveal(step_rel); }
        self.delete(old_index, old_len, new_index)?;
        self.insert(old_index, new_index, new_len)
    }
}
//@@ end

//@@ item src/algorithms/patience.rs :: ^pub fn diff_deadline rw=R0
pub fn diff_deadline<Old, New, D>(
    d: &mut D,
    old: &Old,
    old_range: Range<usize>,
    new: &New,
    new_range: Range<usize>,
    deadline: Option<Instant>,
) -> (res: Result<(), D::Error>)
where
    Old: Index<usize> + ?Sized,
    New: Index<usize> + ?Sized,
    Old::Output: Hash + Eq,
    New::Output: PartialEq<Old::Output> + Hash + Eq,
    D: DiffHook,
/*@*/     requires diff_pre(*vstd::prelude::old(d), old, old_range, new, new_range, alg_lvl(deadline)),
/*@*/     ensures
/*@*/         err_post(*vstd::prelude::old(d), *final(d), res),
/*@*/         seg_post(*vstd::prelude::old(d), *final(d), old, old_range, new, new_range, alg_lvl(deadline), false, fin::<D>(), res.is_ok()),
{
    /*@*/ let ghost ud0 = *d;
    /*@*/ let ghost dfv = mut_ref_future(d);
    let old_indexes = unique(old, old_range.clone());
    let new_indexes = unique(new, new_range.clone());

    let mut d = Replace::new(Patience {
        d,
        old,
        old_current: old_range.start,
        old_end: old_range.end,
        old_indexes: &old_indexes,
        new,
        new_current: new_range.start,
        new_end: new_range.end,
        new_indexes: &new_indexes,
        deadline,
        /*@*/ hist: Ghost(Seq::empty()), d0: Ghost(ud0), s: Ghost(Seq::empty()), o0: Ghost(old_range.start as int), n0: Ghost(new_range.start as int),
    });
    /*@*/ proof {
    /*@*/     // the creator's ghost configuration of the Replace adapter: the script it will receive starts at (0, 0)
    /*@*/     d.rst0@ = canon(0, 0, old_indexes@.len() as int, new_indexes@.len() as int);
    /*@*/     lemma_uniq_len(old_indexes@, old_range.start as int, old_range.end as int);
    /*@*/     lemma_uniq_len(new_indexes@, new_range.start as int, new_range.end as int);
    /*@*/     lemma_seg_empty(rel_of(old, new), alg_lvl(deadline), old_range.start as int, new_range.start as int);
    /*@*/     lemma_run_empty(ud0.rely_rel(), ud0.rely_st());
    /*@*/     lemma_run_empty(rel_true(), d.inner().rst0());
    /*@*/     assert(ud0.trace() + Seq::<Ev>::empty() =~= ud0.trace());
    /*@*/     assert(sent::<Patience<Old, New, D>>(Seq::<Ev>::empty()) + Seq::<Ev>::empty() =~= Seq::<Ev>::empty());
    /*@*/     assert(d.inner().inv());
    /*@*/     assert(d.inv());
    /*@*/ }
    /*@*/ let ghost rp0 = d;
    myers::diff_deadline(
        &mut d,
        &old_indexes,
        0..old_indexes.len(),
        &new_indexes,
        0..new_indexes.len(),
        deadline,
    )?;
    /*@*/ proof {
    /*@*/     let rp = d; let lvl = alg_lvl(deadline);
    /*@*/     let ol = old_indexes@.len() as int; let nl = new_indexes@.len() as int;
    /*@*/     let s1 = choose|q: Seq<Ev>| #[trigger] seg(&old_indexes, &new_indexes, lvl, q, 0, 0, ol, nl)
    /*@*/         && rp.trace() == rp0.trace() + q + fin::<Replace<Patience<Old, New, D>>>()
    /*@*/         && (rp0.relies() ==> rp.rely_st() == run_rel(rp0.rely_rel(), rp0.rely_st(), q + fin::<Replace<Patience<Old, New, D>>>()));
    /*@*/     lemma_seg_any(rel_of(&old_indexes, &new_indexes), rp0.rely_rel(), lvl, s1, 0, 0, ol, nl, rp0.rely_st());
    /*@*/     lemma_run_fin::<Replace<Patience<Old, New, D>>>(rp0.rely_rel(), rp0.rely_st(), s1);
    /*@*/     reveal(step_rel);
    /*@*/     assert(rp.rely_st().ok && rp.rely_st().fin);
    /*@*/     assert(rp.inv() && rp.rst().fin);
    /*@*/     let pt = rp.inner();
    /*@*/     assert(pt.rely_st().ok);
    /*@*/     assert(pt.inv());
    /*@*/     // the Patience hook has seen `finish`: its history is what Replace forwarded plus Finish
    /*@*/     lemma_run_fin::<Patience<Old, New, D>>(rel_true(), pt.rst0(), sent::<Patience<Old, New, D>>(rp.em_()));
    /*@*/     assert(pt.rst().fin);
    /*@*/     assert(pt.done());
    /*@*/     // the hook held by the Patience struct is the caller's hook: no call re-seated the borrow (fobs never changes) and
    /*@*/     // the struct dies here, so what the caller will see is the hook's current state
    /*@*/     assert(rp0.fobs()[0] == obs_now(dfv));
    /*@*/     assert(rp.fobs() == rp0.fobs());
    /*@*/     assert(rp.fobs()[0] == obs_now(mut_ref_future(pt.d)));
    /*@*/     assert(obs_now(*pt.d) == obs_now(dfv));
    /*@*/     lemma_post_transfer(ud0, *pt.d, dfv, old, old_range, new, new_range, lvl, false, fin::<D>(), Ok::<(), D::Error>(()));
    /*@*/ }
    Ok(())
}
//@@ end


//@@ item src/algorithms/patience.rs :: ^pub fn diff< rw=R0
pub fn diff<Old, New, D>(
    d: &mut D,
    old: &Old,
    old_range: Range<usize>,
    new: &New,
    new_range: Range<usize>,
) -> (res: Result<(), D::Error>)
where
    Old: Index<usize> + ?Sized,
    New: Index<usize> + ?Sized,
    Old::Output: Hash + Eq,
    New::Output: PartialEq<Old::Output> + Hash + Eq,
    D: DiffHook,
/*@*/     requires diff_pre(*vstd::prelude::old(d), old, old_range, new, new_range, alg_lvl(None)),
/*@*/     ensures
/*@*/         err_post(*vstd::prelude::old(d), *final(d), res),
/*@*/         seg_post(*vstd::prelude::old(d), *final(d), old, old_range, new, new_range, alg_lvl(None), false, fin::<D>(), res.is_ok()),
{
    diff_deadline(d, old, old_range, new, new_range, None)
}
//@@ end

} // mod patience
} // verus!
