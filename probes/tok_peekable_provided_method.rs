// C06 / unit `tok`: why rewrite R11 exists.  `Iterator::peekable` is a *provided* trait method; Verus
// (0.2026.09.13) rejects an assume_specification for it, and without one the call is "not supported".
// Expected: error "The verifier does not yet support the following Rust feature: assume_specification for a
// provided trait method".  Workaround used: R11 routes the call through the one-line wrapper `iter_peekable`
// (external_body, body `it.peekable()`) that carries the assumed contract.
use vstd::prelude::*;
use core::str::CharIndices;
use core::iter::Peekable;
verus! {
#[verifier::external_type_specification]
#[verifier::external_body]
pub struct ExCharIndices<'a>(CharIndices<'a>);
#[verifier::external_type_specification]
#[verifier::external_body]
#[verifier::reject_recursive_types(I)]
pub struct ExPeekable<I: Iterator>(Peekable<I>);

pub assume_specification<'a>[<CharIndices<'a> as Iterator>::peekable](it: CharIndices<'a>) -> (r: Peekable<CharIndices<'a>>);
}
fn main() {}
