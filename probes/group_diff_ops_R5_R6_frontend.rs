use vstd::prelude::*;
use std::ops::{Index, Range};
use std::marker::PhantomData;
use vstd::std_specs::core::IndexSpec;
verus! {
pub assume_specification<T> [ <[T]>::swap ] (s: &mut [T], a: usize, b: usize)
    requires a < old(s)@.len(), b < old(s)@.len(),
    ensures final(s)@ == old(s)@.update(a as int, old(s)@[b as int]).update(b as int, old(s)@[a as int]);
pub fn is_empty_range<T: PartialOrd<T>>(range: &Range<T>) -> bool {
    !(range.start < range.end)
}
#[verifier::external_body]
pub fn common_prefix_len<Old, New>(old: &Old, old_range: Range<usize>, new: &New, new_range: Range<usize>) -> usize
where Old: Index<usize> + ?Sized, New: Index<usize> + ?Sized, New::Output: PartialEq<Old::Output>,
{ unimplemented!() }
#[verifier::external_body]
pub fn common_suffix_len<Old, New>(old: &Old, old_range: Range<usize>, new: &New, new_range: Range<usize>) -> usize
where Old: Index<usize> + ?Sized, New: Index<usize> + ?Sized, New::Output: PartialEq<Old::Output>,
{ unimplemented!() }
#[derive(Debug, PartialEq, Eq, Hash, Clone, Copy)]
pub enum DiffOp {
    /// A segment is equal (see [`DiffHook::equal`])
    Equal {
        /// The starting index in the old sequence.
        old_index: usize,
        /// The starting index in the new sequence.
        new_index: usize,
        /// The length of the segment.
        len: usize,
    },
    /// A segment was deleted (see [`DiffHook::delete`])
    Delete {
        /// The starting index in the old sequence.
        old_index: usize,
        /// The length of the old segment.
        old_len: usize,
        /// The starting index in the new sequence.
        new_index: usize,
    },
    /// A segment was inserted (see [`DiffHook::insert`])
    Insert {
        /// The starting index in the old sequence.
        old_index: usize,
        /// The starting index in the new sequence.
        new_index: usize,
        /// The length of the new segment.
        new_len: usize,
    },
    /// A segment was replaced (see [`DiffHook::replace`])
    Replace {
        /// The starting index in the old sequence.
        old_index: usize,
        /// The length of the old segment.
        old_len: usize,
        /// The starting index in the new sequence.
        new_index: usize,
        /// The length of the new segment.
        new_len: usize,
    },
}
#[derive(Debug, PartialEq, Eq, Hash, Clone, Copy, Ord, PartialOrd)]
pub enum DiffTag {
    /// The diff op encodes an equal segment.
    Equal,
    /// The diff op encodes a deleted segment.
    Delete,
    /// The diff op encodes an inserted segment.
    Insert,
    /// The diff op encodes a replaced segment.
    Replace,
}
impl DiffOp {
    /// Returns the tag of the operation.
    pub fn tag(self) -> DiffTag {
        self.as_tag_tuple().0
    }

    /// Returns the old range.
    pub fn old_range(&self) -> Range<usize> {
        self.as_tag_tuple().1
    }

    /// Returns the new range.
    pub fn new_range(&self) -> Range<usize> {
        self.as_tag_tuple().2
    }

    /// Transform the op into a tuple of diff tag and ranges.
    ///
    /// This is useful when operating on slices.  The returned format is
    /// `(tag, i1..i2, j1..j2)`:
    ///
    /// * `Replace`: `a[i1..i2]` should be replaced by `b[j1..j2]`
    /// * `Delete`: `a[i1..i2]` should be deleted (`j1 == j2` in this case).
    /// * `Insert`: `b[j1..j2]` should be inserted at `a[i1..i2]` (`i1 == i2` in this case).
    /// * `Equal`: `a[i1..i2]` is equal to `b[j1..j2]`.
    pub fn as_tag_tuple(&self) -> (DiffTag, Range<usize>, Range<usize>) {
        match *self {
            DiffOp::Equal {
                old_index,
                new_index,
                len,
            } => (
                DiffTag::Equal,
                old_index..old_index + len,
                new_index..new_index + len,
            ),
            DiffOp::Delete {
                old_index,
                new_index,
                old_len,
            } => (
                DiffTag::Delete,
                old_index..old_index + old_len,
                new_index..new_index,
            ),
            DiffOp::Insert {
                old_index,
                new_index,
                new_len,
            } => (
                DiffTag::Insert,
                old_index..old_index,
                new_index..new_index + new_len,
            ),
            DiffOp::Replace {
                old_index,
                old_len,
                new_index,
                new_len,
            } => (
                DiffTag::Replace,
                old_index..old_index + old_len,
                new_index..new_index + new_len,
            ),
        }
    }

    pub(crate) fn is_empty(&self) -> bool {
        let (_, old, new) = self.as_tag_tuple();
        is_empty_range(&old) && is_empty_range(&new)
    }

    pub(crate) fn shift_left(&mut self, adjust: usize) {
        self.adjust((adjust, true), (0, false));
    }

    pub(crate) fn shift_right(&mut self, adjust: usize) {
        self.adjust((adjust, false), (0, false));
    }

    pub(crate) fn grow_left(&mut self, adjust: usize) {
        self.adjust((adjust, true), (adjust, false));
    }

    pub(crate) fn grow_right(&mut self, adjust: usize) {
        self.adjust((0, false), (adjust, false));
    }

    pub(crate) fn shrink_left(&mut self, adjust: usize) {
        self.adjust((0, false), (adjust, true));
    }

    pub(crate) fn shrink_right(&mut self, adjust: usize) {
        self.adjust((adjust, false), (adjust, true));
    }

    fn adjust(&mut self, adjust_offset: (usize, bool), adjust_len: (usize, bool)) {
        #[inline(always)]
        fn modify(val: &mut usize, adj: (usize, bool)) {
            if adj.1 {
                *val -= adj.0;
            } else {
                *val += adj.0;
            }
        }

        match self {
            DiffOp::Equal {
                old_index,
                new_index,
                len,
            } => {
                modify(old_index, adjust_offset);
                modify(new_index, adjust_offset);
                modify(len, adjust_len);
            }
            DiffOp::Delete {
                old_index,
                old_len,
                new_index,
            } => {
                modify(old_index, adjust_offset);
                modify(old_len, adjust_len);
                modify(new_index, adjust_offset);
            }
            DiffOp::Insert {
                old_index,
                new_index,
                new_len,
            } => {
                modify(old_index, adjust_offset);
                modify(new_index, adjust_offset);
                modify(new_len, adjust_len);
            }
            DiffOp::Replace {
                old_index,
                old_len,
                new_index,
                new_len,
            } => {
                modify(old_index, adjust_offset);
                modify(old_len, adjust_len);
                modify(new_index, adjust_offset);
                modify(new_len, adjust_len);
            }
        }
    }
}

#[derive(Debug, PartialEq, Eq, Hash, Clone, Copy, Ord, PartialOrd)]
pub enum ChangeTag {
    /// The change indicates equality (not a change)
    Equal,
    /// The change indicates deleted text.
    Delete,
    /// The change indicates inserted text.
    Insert,
}

#[derive(Debug, PartialEq, Eq, Hash, Clone, Copy, Ord, PartialOrd)]
#[cfg_attr(feature = "serde", derive(serde::Serialize))]
pub struct Change<T> {
    pub(crate) tag: ChangeTag,
    pub(crate) old_index: Option<usize>,
    pub(crate) new_index: Option<usize>,
    pub(crate) value: T,
}

#[verifier::exec_allows_no_decreases_clause]
pub fn group_diff_ops(mut ops: Vec<DiffOp>, n: usize) -> Vec<Vec<DiffOp>> {
    if ops.is_empty() {
        return vec![];
    }

    let mut pending_group = Vec::new();
    let mut rv = Vec::new();

    if let Some(DiffOp::Equal {
        old_index,
        new_index,
        len,
    }) = ops.first_mut()
    {
        let offset = (*len).saturating_sub(n);
        *old_index += offset;
        *new_index += offset;
        *len -= offset;
    }

    if let Some(DiffOp::Equal { len, .. }) = ops.last_mut() {
        *len -= (*len).saturating_sub(n);
    }

    let mut ops__it = ops.into_iter();
    loop {
        let op = match ops__it.next() { Some(x) => x, None => break };
        if let DiffOp::Equal {
            old_index,
            new_index,
            len,
        } = op
        {
            // End the current group and start a new one whenever
            // there is a large range with no changes.
            if len > n * 2 {
                pending_group.push(DiffOp::Equal {
                    old_index,
                    new_index,
                    len: n,
                });
                rv.push(pending_group);
                let offset = len.saturating_sub(n);
                pending_group = vec![DiffOp::Equal {
                    old_index: old_index + offset,
                    new_index: new_index + offset,
                    len: len - offset,
                }];
                continue;
            }
        }
        pending_group.push(op);
    }

    if pending_group.len() == 0 || (pending_group.len() == 1 && matches!(pending_group[0], DiffOp::Equal { .. })) {} else { rv.push(pending_group) }

    rv
}


} // verus!
fn main() {}
