use vstd::prelude::*;
use std::ops::{Index, Range};
use std::time::Instant;
use vstd::std_specs::core::IndexSpec;
verus! {
#[verifier::external_type_specification]
#[verifier::external_body]
pub struct ExInstant(Instant);

pub uninterp spec fn item_at<L: Index<usize> + ?Sized>(l: &L, i: usize) -> &L::Output;
pub uninterp spec fn item_eq<A: PartialEq<B> + ?Sized, B: ?Sized>(a: &A, b: &B) -> bool;
#[verifier::external_body]
pub broadcast proof fn axiom_pure_index<L: Index<usize> + ?Sized>(l: &L, i: usize, r: &L::Output)
    requires #[trigger] call_ensures(<L as Index<usize>>::index, (l, i), r)
    ensures r == item_at(l, i) {}
#[verifier::external_body]
pub broadcast proof fn axiom_pure_eq<A: PartialEq<B> + ?Sized, B: ?Sized>(a: &A, b: &B, r: bool)
    requires #[trigger] call_ensures(<A as PartialEq<B>>::eq, (a, b), r)
    ensures r == item_eq(a, b) {}
pub open spec fn eqv<Old: Index<usize> + ?Sized, New: Index<usize> + ?Sized>(old: &Old, i: int, new: &New, j: int) -> bool
  where New::Output: PartialEq<Old::Output>
{ item_eq(item_at(new, j as usize), item_at(old, i as usize)) }
pub open spec fn inb<L: Index<usize> + ?Sized>(l: &L, r: Range<usize>) -> bool {
    forall|i: usize| r.start <= i < r.end ==> #[trigger] l.index_req(&i)
}

pub enum Ev { Equal(usize,usize,usize), Delete(usize,usize,usize), Insert(usize,usize,usize), Replace(usize,usize,usize,usize), Finish }

// cursor checker
pub struct St { pub ok: bool, pub oc: int, pub nc: int, pub ro: int, pub rn: int, pub po: int, pub pn: int, pub dels: int, pub inss: int, pub eqs: int }
pub open spec fn imax(a: int, b: int) -> int { if a >= b { a } else { b } }
pub type Rel = spec_fn(int, int) -> bool;
pub open spec fn relk(rel: Rel, o: int, n: int, i: int) -> bool { rel(o + i, n + i) }
pub open spec fn rel_of<Old: Index<usize> + ?Sized, New: Index<usize> + ?Sized>(old: &Old, new: &New) -> Rel
  where New::Output: PartialEq<Old::Output>
{ |i: int, j: int| eqv(old, i, new, j) }
pub open spec fn step_rel(rel: Rel, st: St, ev: Ev) -> St
{
    match ev {
        Ev::Equal(o, n, l) => St { ok: st.ok && l > 0 && o == st.oc && n == st.nc && st.po <= st.oc && st.pn <= st.nc
                && (forall|i: int| 0 <= i < l ==> #[trigger] relk(rel, o as int, n as int, i)),
            oc: st.oc + l, nc: st.nc + l, ro: st.oc + l, rn: st.nc + l, po: st.oc + l, pn: st.nc + l, dels: st.dels, inss: st.inss, eqs: st.eqs + l },
        Ev::Delete(o, l, n) => St { ok: st.ok && l > 0 && o == st.oc && st.rn <= n, oc: st.oc + l, nc: st.nc, pn: imax(st.pn, n as int), dels: st.dels + l, ..st },
        Ev::Insert(o, n, l) => St { ok: st.ok && l > 0 && n == st.nc && st.ro <= o, oc: st.oc, nc: st.nc + l, po: imax(st.po, o as int), inss: st.inss + l, ..st },
        Ev::Replace(o, ol, n, nl) => St { ok: st.ok && ol > 0 && nl > 0 && o == st.oc && n == st.nc, oc: st.oc + ol, nc: st.nc + nl, dels: st.dels + ol, inss: st.inss + nl, ..st },
        Ev::Finish => St { ok: false, ..st },
    }
}
pub open spec fn step<Old: Index<usize> + ?Sized, New: Index<usize> + ?Sized>(old: &Old, new: &New, st: St, ev: Ev) -> St
  where New::Output: PartialEq<Old::Output>
{ step_rel(rel_of(old, new), st, ev) }
pub open spec fn run<Old: Index<usize> + ?Sized, New: Index<usize> + ?Sized>(old: &Old, new: &New, st: St, s: Seq<Ev>) -> St
  where New::Output: PartialEq<Old::Output>
  decreases s.len()
{
    if s.len() == 0 { st } else { step(old, new, run(old, new, st, s.drop_last()), s.last()) }
}
pub proof fn lemma_run_push<Old: Index<usize> + ?Sized, New: Index<usize> + ?Sized>(old: &Old, new: &New, st: St, s: Seq<Ev>, e: Ev)
  where New::Output: PartialEq<Old::Output>
  ensures run(old, new, st, s.push(e)) == step(old, new, run(old, new, st, s), e)
{
    assert(s.push(e).drop_last() =~= s);
}
pub proof fn lemma_run_concat<Old: Index<usize> + ?Sized, New: Index<usize> + ?Sized>(old: &Old, new: &New, st: St, a: Seq<Ev>, b: Seq<Ev>)
  where New::Output: PartialEq<Old::Output>
  ensures run(old, new, st, a + b) == run(old, new, run(old, new, st, a), b)
  decreases b.len()
{
    if b.len() == 0 { assert(a + b =~= a); }
    else {
        lemma_run_concat(old, new, st, a, b.drop_last());
        assert((a + b).drop_last() =~= a + b.drop_last());
        assert((a+b).last() == b.last());
    }
}

pub proof fn lemma_run_push_all<Old: Index<usize> + ?Sized, New: Index<usize> + ?Sized>(old: &Old, new: &New, s: Seq<Ev>, e: Ev)
  where New::Output: PartialEq<Old::Output>
  ensures forall|st: St| #![trigger run(old, new, st, s.push(e))] run(old, new, st, s.push(e)) == step(old, new, run(old, new, st, s), e)
{
    assert forall|st: St| #![trigger run(old, new, st, s.push(e))] run(old, new, st, s.push(e)) == step(old, new, run(old, new, st, s), e) by { lemma_run_push(old, new, st, s, e); }
}
pub proof fn lemma_run_concat_all<Old: Index<usize> + ?Sized, New: Index<usize> + ?Sized>(old: &Old, new: &New, a: Seq<Ev>, b: Seq<Ev>)
  where New::Output: PartialEq<Old::Output>
  ensures forall|st: St| #![trigger run(old, new, st, a + b)] run(old, new, st, a + b) == run(old, new, run(old, new, st, a), b)
{
    assert forall|st: St| #![trigger run(old, new, st, a + b)] run(old, new, st, a + b) == run(old, new, run(old, new, st, a), b) by { lemma_run_concat(old, new, st, a, b); }
}

pub open spec fn canon(o: int, n: int) -> St { St { ok: true, oc: o, nc: n, ro: o, rn: n, po: o, pn: n, dels: 0, inss: 0, eqs: 0 } }
pub open spec fn wf(st: St) -> bool { st.ok && st.ro <= st.oc && st.rn <= st.nc && st.po <= st.oc && st.pn <= st.nc }
pub open spec fn sim(a: St, c: St) -> bool {   // a simulates canonical c: same cursor, weaker run bounds
    a.oc == c.oc && a.nc == c.nc && a.ro <= c.ro && a.rn <= c.rn && a.po <= c.po && a.pn <= c.pn && (c.ok ==> a.ok)
    && a.dels - c.dels == 0 + (a.dels - c.dels) && a.eqs >= 0 - 0 + a.eqs
}
#[verifier::opaque]
pub open spec fn seg<Old: Index<usize> + ?Sized, New: Index<usize> + ?Sized>(old: &Old, new: &New, s: Seq<Ev>, o0: int, n0: int, o1: int, n1: int) -> bool
  where New::Output: PartialEq<Old::Output>
{
    let st = run(old, new, canon(o0, n0), s);
    wf(st) && st.oc == o1 && st.nc == n1 && st.dels == (o1 - o0) - st.eqs && st.inss == (n1 - n0) - st.eqs && st.eqs >= 0
}
pub proof fn lemma_sim_step<Old: Index<usize> + ?Sized, New: Index<usize> + ?Sized>(old: &Old, new: &New, a: St, c: St, e: Ev)
  where New::Output: PartialEq<Old::Output>
  requires a.oc == c.oc, a.nc == c.nc, a.ro <= c.ro, a.rn <= c.rn, a.po <= c.po, a.pn <= c.pn, c.ok ==> a.ok
  ensures ({ let a2 = step(old, new, a, e); let c2 = step(old, new, c, e);
     a2.oc == c2.oc && a2.nc == c2.nc && a2.ro <= c2.ro && a2.rn <= c2.rn && a2.po <= c2.po && a2.pn <= c2.pn && (c2.ok ==> a2.ok)
     && a2.dels - a.dels == c2.dels - c.dels && a2.inss - a.inss == c2.inss - c.inss && a2.eqs - a.eqs == c2.eqs - c.eqs })
{}
pub proof fn lemma_sim_run<Old: Index<usize> + ?Sized, New: Index<usize> + ?Sized>(old: &Old, new: &New, a: St, c: St, s: Seq<Ev>)
  where New::Output: PartialEq<Old::Output>
  requires a.oc == c.oc, a.nc == c.nc, a.ro <= c.ro, a.rn <= c.rn, a.po <= c.po, a.pn <= c.pn, c.ok ==> a.ok
  ensures ({ let a2 = run(old, new, a, s); let c2 = run(old, new, c, s);
     a2.oc == c2.oc && a2.nc == c2.nc && a2.ro <= c2.ro && a2.rn <= c2.rn && a2.po <= c2.po && a2.pn <= c2.pn && (c2.ok ==> a2.ok)
     && a2.dels - a.dels == c2.dels - c.dels && a2.inss - a.inss == c2.inss - c.inss && a2.eqs - a.eqs == c2.eqs - c.eqs })
  decreases s.len()
{
    if s.len() > 0 {
        lemma_sim_run(old, new, a, c, s.drop_last());
        lemma_sim_step(old, new, run(old, new, a, s.drop_last()), run(old, new, c, s.drop_last()), s.last());
    }
}
/// a segment can be replayed from any well-formed state at its start cursor
pub proof fn lemma_seg_any<Old: Index<usize> + ?Sized, New: Index<usize> + ?Sized>(old: &Old, new: &New, s: Seq<Ev>, o0: int, n0: int, o1: int, n1: int, st: St)
  where New::Output: PartialEq<Old::Output>
  requires seg(old, new, s, o0, n0, o1, n1), wf(st), st.oc == o0, st.nc == n0
  ensures ({ let st2 = run(old, new, st, s); wf(st2) && st2.oc == o1 && st2.nc == n1
      && st2.dels - st.dels == (o1 - o0) - (st2.eqs - st.eqs) && st2.inss - st.inss == (n1 - n0) - (st2.eqs - st.eqs) && st2.eqs >= st.eqs })
{
    reveal(seg);
    lemma_sim_run(old, new, st, canon(o0, n0), s);
}
pub proof fn lemma_seg_empty<Old: Index<usize> + ?Sized, New: Index<usize> + ?Sized>(old: &Old, new: &New, o: int, n: int)
  where New::Output: PartialEq<Old::Output>
  ensures seg(old, new, Seq::<Ev>::empty(), o, n, o, n)
{ reveal(seg); }
pub proof fn lemma_seg_concat<Old: Index<usize> + ?Sized, New: Index<usize> + ?Sized>(old: &Old, new: &New, a: Seq<Ev>, b: Seq<Ev>, o0: int, n0: int, o1: int, n1: int, o2: int, n2: int)
  where New::Output: PartialEq<Old::Output>
  requires seg(old, new, a, o0, n0, o1, n1), seg(old, new, b, o1, n1, o2, n2)
  ensures seg(old, new, a + b, o0, n0, o2, n2)
{
    lemma_run_concat(old, new, canon(o0, n0), a, b);
    let mid = run(old, new, canon(o0, n0), a);
    assert(wf(mid) && mid.oc == o1 && mid.nc == n1) by { reveal(seg); }
    lemma_seg_any(old, new, b, o1, n1, o2, n2, mid);
    reveal(seg);
}
pub proof fn lemma_seg_push<Old: Index<usize> + ?Sized, New: Index<usize> + ?Sized>(old: &Old, new: &New, a: Seq<Ev>, e: Ev, o0: int, n0: int, o1: int, n1: int)
  where New::Output: PartialEq<Old::Output>
  requires seg(old, new, a, o0, n0, o1, n1),
     match e {
        Ev::Equal(o, n, l) => l > 0 && o == o1 && n == n1 && (forall|i: int| 0 <= i < l ==> #[trigger] relk(rel_of(old, new), o as int, n as int, i)),
        Ev::Delete(o, l, n) => l > 0 && o == o1 && n == n1,
        Ev::Insert(o, n, l) => l > 0 && n == n1 && (o == o1 || (a.len() > 0 && (a.last() matches Ev::Delete(o_d, l_d, n_d) && o == o_d))),
        _ => false,
     }
  ensures match e {
        Ev::Equal(o, n, l) => seg(old, new, a.push(e), o0, n0, o1 + l, n1 + l),
        Ev::Delete(o, l, n) => seg(old, new, a.push(e), o0, n0, o1 + l, n1),
        Ev::Insert(o, n, l) => seg(old, new, a.push(e), o0, n0, o1, n1 + l),
        _ => true,
     }
{
    reveal(seg);
    lemma_run_push(old, new, canon(o0, n0), a, e);
    let st = run(old, new, canon(o0, n0), a);
    lemma_ro_lower(old, new, canon(o0, n0), a);
    if a.len() > 0 {
        lemma_ro_lower(old, new, canon(o0, n0), a.drop_last());
        assert(run(old, new, canon(o0, n0), a) == step(old, new, run(old, new, canon(o0, n0), a.drop_last()), a.last()));
    }
}
/// run-start fields never drop below their initial value... (ro, rn are cursors at run start, cursors only grow)
pub proof fn lemma_ro_lower<Old: Index<usize> + ?Sized, New: Index<usize> + ?Sized>(old: &Old, new: &New, st: St, s: Seq<Ev>)
  where New::Output: PartialEq<Old::Output>
  requires st.ro <= st.oc, st.rn <= st.nc
  ensures ({ let st2 = run(old, new, st, s); st2.ro <= st2.oc && st2.rn <= st2.nc && st2.oc >= st.oc && st2.nc >= st.nc })
  decreases s.len()
{
    if s.len() > 0 { lemma_ro_lower(old, new, st, s.drop_last()); }
}
pub trait DiffHook: Sized {
    type Error;
    spec fn trace(&self) -> Seq<Ev>;
    spec fn failed(&self) -> bool;
    spec fn relies(&self) -> bool;
    spec fn rely_rel(&self) -> Rel;
    spec fn rely_st(&self) -> St;
    fn equal(&mut self, old_index: usize, new_index: usize, len: usize) -> (r: Result<(), Self::Error>)
        requires !(*old(self)).failed(), (*old(self)).relies() ==> step_rel((*old(self)).rely_rel(), (*old(self)).rely_st(), Ev::Equal(old_index, new_index, len)).ok,
        ensures (*final(self)).trace() == (*old(self)).trace().push(Ev::Equal(old_index, new_index, len)),
                (*final(self)).relies() == (*old(self)).relies(), (*final(self)).rely_rel() == (*old(self)).rely_rel(),
                (*final(self)).rely_st() == step_rel((*old(self)).rely_rel(), (*old(self)).rely_st(), Ev::Equal(old_index, new_index, len)),
                (*final(self)).failed() == r.is_err();
    fn delete(&mut self, old_index: usize, old_len: usize, new_index: usize) -> (r: Result<(), Self::Error>)
        requires !(*old(self)).failed(), (*old(self)).relies() ==> step_rel((*old(self)).rely_rel(), (*old(self)).rely_st(), Ev::Delete(old_index, old_len, new_index)).ok,
        ensures (*final(self)).trace() == (*old(self)).trace().push(Ev::Delete(old_index, old_len, new_index)),
                (*final(self)).relies() == (*old(self)).relies(), (*final(self)).rely_rel() == (*old(self)).rely_rel(),
                (*final(self)).rely_st() == step_rel((*old(self)).rely_rel(), (*old(self)).rely_st(), Ev::Delete(old_index, old_len, new_index)),
                (*final(self)).failed() == r.is_err();
    fn insert(&mut self, old_index: usize, new_index: usize, new_len: usize) -> (r: Result<(), Self::Error>)
        requires !(*old(self)).failed(), (*old(self)).relies() ==> step_rel((*old(self)).rely_rel(), (*old(self)).rely_st(), Ev::Insert(old_index, new_index, new_len)).ok,
        ensures (*final(self)).trace() == (*old(self)).trace().push(Ev::Insert(old_index, new_index, new_len)),
                (*final(self)).relies() == (*old(self)).relies(), (*final(self)).rely_rel() == (*old(self)).rely_rel(),
                (*final(self)).rely_st() == step_rel((*old(self)).rely_rel(), (*old(self)).rely_st(), Ev::Insert(old_index, new_index, new_len)),
                (*final(self)).failed() == r.is_err();
    fn finish(&mut self) -> (r: Result<(), Self::Error>)
        requires !(*old(self)).failed(),
        ensures (*final(self)).trace() == (*old(self)).trace().push(Ev::Finish),
                (*final(self)).relies() == (*old(self)).relies(), (*final(self)).rely_rel() == (*old(self)).rely_rel(),
                (*final(self)).failed() == r.is_err();
}

pub assume_specification<Idx: Clone>[ <Range<Idx> as Clone>::clone ](r: &Range<Idx>) -> (c: Range<Idx>)
    ensures call_ensures(Idx::clone, (&r.start,), c.start), call_ensures(Idx::clone, (&r.end,), c.end);
pub struct V { pub offset: isize, pub v: Vec<usize> }

pub fn is_empty_range(range: &Range<usize>) -> (r: bool)
    ensures r == !(range.start < range.end)
{
    !(range.start < range.end)
}
#[verifier::external_body]
pub fn common_prefix_len<Old, New>(old: &Old, old_range: Range<usize>, new: &New, new_range: Range<usize>) -> (r: usize)
where Old: Index<usize> + ?Sized, New: Index<usize> + ?Sized, New::Output: PartialEq<Old::Output>,
    requires inb(old, old_range), inb(new, new_range),
    ensures
        old_range.start + r <= old_range.end || r == 0, new_range.start + r <= new_range.end || r == 0,
        forall|i: int| 0 <= i < r ==> #[trigger] relk(rel_of(old, new), old_range.start as int, new_range.start as int, i),
        (old_range.start + r < old_range.end && new_range.start + r < new_range.end) ==> !eqv(old, old_range.start + r, new, new_range.start + r),
{ unimplemented!() }
#[verifier::external_body]
pub fn common_suffix_len<Old, New>(old: &Old, old_range: Range<usize>, new: &New, new_range: Range<usize>) -> (r: usize)
where Old: Index<usize> + ?Sized, New: Index<usize> + ?Sized, New::Output: PartialEq<Old::Output>,
    requires inb(old, old_range), inb(new, new_range),
    ensures
        old_range.start + r <= old_range.end || r == 0, new_range.start + r <= new_range.end || r == 0,
        forall|i: int| 0 <= i < r ==> #[trigger] relk(rel_of(old, new), old_range.end - r, new_range.end - r, i),
{ unimplemented!() }

#[verifier::external_body]
fn find_middle_snake<Old, New>(old: &Old, old_range: Range<usize>, new: &New, new_range: Range<usize>, vf: &mut V, vb: &mut V, deadline: Option<Instant>,
) -> (r: Option<(usize, usize)>)
where Old: Index<usize> + ?Sized, New: Index<usize> + ?Sized, New::Output: PartialEq<Old::Output>,
    requires inb(old, old_range), inb(new, new_range), old_range.start < old_range.end, new_range.start < new_range.end,
    ensures r matches Some((x, y)) ==> old_range.start <= x <= old_range.end && new_range.start <= y <= new_range.end,
{ unimplemented!() }

#[inline(always)]
fn split_at(range: Range<usize>, at: usize) -> (r: (Range<usize>, Range<usize>))
    ensures r.0.start == range.start, r.0.end == at, r.1.start == at, r.1.end == range.end
{
    (range.start..at, at..range.end)
}

pub open spec fn box_ok(st: St, o: Range<usize>, n: Range<usize>) -> bool { st.ok && st.oc == o.start && st.nc == n.start && st.ro <= st.oc && st.rn <= st.nc && st.po <= st.oc && st.pn <= st.nc }


/// before a hook call: the event is acceptable to a relying hook
pub proof fn pre_call<Old: Index<usize> + ?Sized, New: Index<usize> + ?Sized>(old: &Old, new: &New, s: Seq<Ev>, e: Ev, o0: int, n0: int, oc: int, nc: int, rs0: St)
  where New::Output: PartialEq<Old::Output>
  requires seg(old, new, s, o0, n0, oc, nc), wf(rs0), rs0.oc == o0, rs0.nc == n0,
     match e {
        Ev::Equal(o, n, l) => l > 0 && o == oc && n == nc && (forall|i: int| 0 <= i < l ==> #[trigger] relk(rel_of(old, new), o as int, n as int, i)),
        Ev::Delete(o, l, n) => l > 0 && o == oc && n == nc,
        Ev::Insert(o, n, l) => l > 0 && n == nc && (o == oc || (s.len() > 0 && (s.last() matches Ev::Delete(o_d, l_d, n_d) && o == o_d))),
        _ => false,
     }
  ensures step_rel(rel_of(old, new), run(old, new, rs0, s), e).ok
{
    lemma_seg_push(old, new, s, e, o0, n0, oc, nc);
    let (o1, n1) = match e { Ev::Equal(o, n, l) => (oc + l, nc + l), Ev::Delete(o, l, n) => (oc + l, nc), Ev::Insert(o, n, l) => (oc, nc + l), _ => (oc, nc) };
    lemma_seg_any(old, new, s.push(e), o0, n0, o1, n1, rs0);
    lemma_run_push(old, new, rs0, s, e);
}
pub proof fn post_call<Old: Index<usize> + ?Sized, New: Index<usize> + ?Sized>(old: &Old, new: &New, s: Seq<Ev>, e: Ev, o0: int, n0: int, oc: int, nc: int, rs0: St)
  where New::Output: PartialEq<Old::Output>
  requires seg(old, new, s, o0, n0, oc, nc),
     match e {
        Ev::Equal(o, n, l) => l > 0 && o == oc && n == nc && (forall|i: int| 0 <= i < l ==> #[trigger] relk(rel_of(old, new), o as int, n as int, i)),
        Ev::Delete(o, l, n) => l > 0 && o == oc && n == nc,
        Ev::Insert(o, n, l) => l > 0 && n == nc && (o == oc || (s.len() > 0 && (s.last() matches Ev::Delete(o_d, l_d, n_d) && o == o_d))),
        _ => false,
     }
  ensures run(old, new, rs0, s.push(e)) == step(old, new, run(old, new, rs0, s), e),
     match e {
        Ev::Equal(o, n, l) => seg(old, new, s.push(e), o0, n0, oc + l, nc + l),
        Ev::Delete(o, l, n) => seg(old, new, s.push(e), o0, n0, oc + l, nc),
        Ev::Insert(o, n, l) => seg(old, new, s.push(e), o0, n0, oc, nc + l),
        _ => true,
     }
{
    lemma_seg_push(old, new, s, e, o0, n0, oc, nc);
    lemma_run_push(old, new, rs0, s, e);
}
#[allow(clippy::too_many_arguments)]
#[verifier::exec_allows_no_decreases_clause]
fn conquer<Old, New, D>(
    d: &mut D,
    old: &Old,
    mut old_range: Range<usize>,
    new: &New,
    mut new_range: Range<usize>,
    vf: &mut V,
    vb: &mut V,
    deadline: Option<Instant>,
) -> (res: Result<(), D::Error>)
where
    Old: Index<usize> + ?Sized,
    New: Index<usize> + ?Sized,
    D: DiffHook,
    New::Output: PartialEq<Old::Output>,
    requires
        !(*vstd::prelude::old(d)).failed(),
        (*vstd::prelude::old(d)).relies() ==> (*vstd::prelude::old(d)).rely_rel() == rel_of(old, new) && wf((*vstd::prelude::old(d)).rely_st())
            && (*vstd::prelude::old(d)).rely_st().oc == old_range.start && (*vstd::prelude::old(d)).rely_st().nc == new_range.start,
        inb(old, old_range), inb(new, new_range),
        old_range.start <= old_range.end, new_range.start <= new_range.end,
    ensures
        (*final(d)).failed() == res.is_err(),
        (*final(d)).relies() == (*vstd::prelude::old(d)).relies(), (*final(d)).rely_rel() == (*vstd::prelude::old(d)).rely_rel(),
        res.is_ok() ==> exists|s: Seq<Ev>| (*final(d)).trace() == (*vstd::prelude::old(d)).trace() + s
            && seg(old, new, s, old_range.start as int, new_range.start as int, old_range.end as int, new_range.end as int)
            && ((*vstd::prelude::old(d)).relies() ==> (*final(d)).rely_st() == run(old, new, (*vstd::prelude::old(d)).rely_st(), s)),
{
    broadcast use {axiom_pure_index, axiom_pure_eq};
    let ghost o0 = old_range.start as int; let ghost n0 = new_range.start as int;
    let ghost t0 = d.trace(); let ghost rs0 = d.rely_st(); let ghost d0 = *d;
    let ghost mut s: Seq<Ev> = Seq::empty();
    let ghost mut oc: int = o0; let ghost mut nc: int = n0;
    proof { lemma_seg_empty(old, new, o0, n0); assert(run(old, new, rs0, s) == rs0); }
    // Check for common prefix
    let common_prefix_len = common_prefix_len(old, old_range.clone(), new, new_range.clone());
    if common_prefix_len > 0 {
        proof { if d0.relies() { pre_call(old, new, s, Ev::Equal(old_range.start, new_range.start, common_prefix_len), o0, n0, oc, nc, rs0); } }
        d.equal(old_range.start, new_range.start, common_prefix_len)?;
        proof { let e = Ev::Equal(old_range.start, new_range.start, common_prefix_len); post_call(old, new, s, e, o0, n0, oc, nc, rs0); s = s.push(e); oc = oc + common_prefix_len; nc = nc + common_prefix_len; assert(d.trace() == t0 + s); assert(d0.relies() ==> d.rely_st() == run(old, new, rs0, s)); }
    }
    old_range.start += common_prefix_len;
    new_range.start += common_prefix_len;

    // Check for common suffix
    let common_suffix_len = common_suffix_len(old, old_range.clone(), new, new_range.clone());
    let common_suffix = (
        old_range.end - common_suffix_len,
        new_range.end - common_suffix_len,
    );
    old_range.end -= common_suffix_len;
    new_range.end -= common_suffix_len;

    if is_empty_range(&old_range) && is_empty_range(&new_range) {
        // Do nothing
    } else if is_empty_range(&new_range) {
        proof { if d0.relies() { pre_call(old, new, s, Ev::Delete(old_range.start, (old_range.end - old_range.start) as usize, new_range.start), o0, n0, oc, nc, rs0); } }
        d.delete(old_range.start, old_range.len(), new_range.start)?;
        proof { let e = Ev::Delete(old_range.start, (old_range.end - old_range.start) as usize, new_range.start); post_call(old, new, s, e, o0, n0, oc, nc, rs0); s = s.push(e); oc = oc + (old_range.end - old_range.start); assert(d.trace() == t0 + s); assert(d0.relies() ==> d.rely_st() == run(old, new, rs0, s)); }
    } else if is_empty_range(&old_range) {
        proof { if d0.relies() { pre_call(old, new, s, Ev::Insert(old_range.start, new_range.start, (new_range.end - new_range.start) as usize), o0, n0, oc, nc, rs0); } }
        d.insert(old_range.start, new_range.start, new_range.len())?;
        proof { let e = Ev::Insert(old_range.start, new_range.start, (new_range.end - new_range.start) as usize); post_call(old, new, s, e, o0, n0, oc, nc, rs0); s = s.push(e); nc = nc + (new_range.end - new_range.start); assert(d.trace() == t0 + s); assert(d0.relies() ==> d.rely_st() == run(old, new, rs0, s)); }
    } else if let Some((x_start, y_start)) = find_middle_snake(
        old,
        old_range.clone(),
        new,
        new_range.clone(),
        vf,
        vb,
        deadline,
    ) {
        let (old_a, old_b) = split_at(old_range, x_start);
        let (new_a, new_b) = split_at(new_range, y_start);
        let ghost ta = d.trace(); let ghost ra = d.rely_st();
        proof { if d0.relies() { lemma_seg_any(old, new, s, o0, n0, oc, nc, rs0); } }
        conquer(d, old, old_a, new, new_a, vf, vb, deadline)?;
        proof {
            let sa = choose|q: Seq<Ev>| d.trace() == ta + q && seg(old, new, q, old_a.start as int, new_a.start as int, old_a.end as int, new_a.end as int)
                && (d0.relies() ==> d.rely_st() == run(old, new, ra, q));
            lemma_seg_concat(old, new, s, sa, o0, n0, oc, nc, old_a.end as int, new_a.end as int);
            lemma_run_concat(old, new, rs0, s, sa);
            assert((t0 + s) + sa =~= t0 + (s + sa));
            s = s + sa; oc = old_a.end as int; nc = new_a.end as int;
            assert(d.trace() == t0 + s); assert(d0.relies() ==> d.rely_st() == run(old, new, rs0, s));
        }
        let ghost tb = d.trace(); let ghost rb = d.rely_st();
        proof { if d0.relies() { lemma_seg_any(old, new, s, o0, n0, oc, nc, rs0); } }
        conquer(d, old, old_b, new, new_b, vf, vb, deadline)?;
        proof {
            let sb = choose|q: Seq<Ev>| d.trace() == tb + q && seg(old, new, q, old_b.start as int, new_b.start as int, old_b.end as int, new_b.end as int)
                && (d0.relies() ==> d.rely_st() == run(old, new, rb, q));
            lemma_seg_concat(old, new, s, sb, o0, n0, oc, nc, old_b.end as int, new_b.end as int);
            lemma_run_concat(old, new, rs0, s, sb);
            assert((t0 + s) + sb =~= t0 + (s + sb));
            s = s + sb; oc = old_b.end as int; nc = new_b.end as int;
            assert(d.trace() == t0 + s); assert(d0.relies() ==> d.rely_st() == run(old, new, rs0, s));
        }
    } else {
        proof { if d0.relies() { pre_call(old, new, s, Ev::Delete(old_range.start, (old_range.end - old_range.start) as usize, new_range.start), o0, n0, oc, nc, rs0); } }
        d.delete(
            old_range.start,
            old_range.end - old_range.start,
            new_range.start,
        )?;
        proof { let e = Ev::Delete(old_range.start, (old_range.end - old_range.start) as usize, new_range.start); post_call(old, new, s, e, o0, n0, oc, nc, rs0); s = s.push(e); oc = oc + (old_range.end - old_range.start); assert(d.trace() == t0 + s); assert(d0.relies() ==> d.rely_st() == run(old, new, rs0, s)); }
        proof { if d0.relies() { pre_call(old, new, s, Ev::Insert(old_range.start, new_range.start, (new_range.end - new_range.start) as usize), o0, n0, oc, nc, rs0); } }
        d.insert(
            old_range.start,
            new_range.start,
            new_range.end - new_range.start,
        )?;
        proof { let e = Ev::Insert(old_range.start, new_range.start, (new_range.end - new_range.start) as usize); post_call(old, new, s, e, o0, n0, oc, nc, rs0); s = s.push(e); nc = nc + (new_range.end - new_range.start); assert(d.trace() == t0 + s); assert(d0.relies() ==> d.rely_st() == run(old, new, rs0, s)); }
    }

    if common_suffix_len > 0 {
        proof { if d0.relies() { pre_call(old, new, s, Ev::Equal(common_suffix.0, common_suffix.1, common_suffix_len), o0, n0, oc, nc, rs0); } }
        d.equal(common_suffix.0, common_suffix.1, common_suffix_len)?;
        proof { let e = Ev::Equal(common_suffix.0, common_suffix.1, common_suffix_len); post_call(old, new, s, e, o0, n0, oc, nc, rs0); s = s.push(e); oc = oc + common_suffix_len; nc = nc + common_suffix_len; assert(d.trace() == t0 + s); assert(d0.relies() ==> d.rely_st() == run(old, new, rs0, s)); }
    }

    proof { assert(d.trace() == t0 + s); }
    Ok(())
}


} // verus!
fn main() {}
