use vstd::prelude::*;
use std::ops::{Index, Range};
use std::time::Instant;
use std::collections::BTreeMap;
use vstd::std_specs::core::IndexSpec;
verus! {
#[verifier::external_type_specification]
#[verifier::external_body]
pub struct ExInstant(Instant);

pub uninterp spec fn item_at<L: Index<usize> + ?Sized>(l: &L, i: usize) -> &L::Output;
pub uninterp spec fn item_eq<A: PartialEq<B> + ?Sized, B: ?Sized>(a: &A, b: &B) -> bool;
#[verifier::external_body]
pub broadcast proof fn axiom_pure_index<L: Index<usize> + ?Sized>(l: &L, i: usize, r: &L::Output)
    requires #[trigger] call_ensures(<L as Index<usize>>::index, (l, i), r)
    ensures r == item_at(l, i) {}
#[verifier::external_body]
pub broadcast proof fn axiom_pure_eq<A: PartialEq<B> + ?Sized, B: ?Sized>(a: &A, b: &B, r: bool)
    requires #[trigger] call_ensures(<A as PartialEq<B>>::eq, (a, b), r)
    ensures r == item_eq(a, b) {}
pub open spec fn eqv<Old: Index<usize> + ?Sized, New: Index<usize> + ?Sized>(old: &Old, i: int, new: &New, j: int) -> bool
  where New::Output: PartialEq<Old::Output>
{ item_eq(item_at(new, j as usize), item_at(old, i as usize)) }
pub open spec fn inb<L: Index<usize> + ?Sized>(l: &L, r: Range<usize>) -> bool {
    forall|i: usize| r.start <= i < r.end ==> #[trigger] l.index_req(&i)
}

pub enum Ev { Equal(usize,usize,usize), Delete(usize,usize,usize), Insert(usize,usize,usize), Replace(usize,usize,usize,usize), Finish }

// cursor checker
pub struct St { pub ok: bool, pub oc: int, pub nc: int }
pub type Rel = spec_fn(int, int) -> bool;
pub open spec fn relk(rel: Rel, o: int, n: int, i: int) -> bool { rel(o + i, n + i) }
pub open spec fn rel_of<Old: Index<usize> + ?Sized, New: Index<usize> + ?Sized>(old: &Old, new: &New) -> Rel
  where New::Output: PartialEq<Old::Output>
{ |i: int, j: int| eqv(old, i, new, j) }
pub open spec fn step_rel(rel: Rel, st: St, ev: Ev) -> St
{
    match ev {
        Ev::Equal(o, n, l) => St { ok: st.ok && l > 0 && o == st.oc && n == st.nc && (forall|i: int| 0 <= i < l ==> #[trigger] relk(rel, o as int, n as int, i)), oc: st.oc + l, nc: st.nc + l },
        Ev::Delete(o, l, n) => St { ok: st.ok && l > 0 && o == st.oc, oc: st.oc + l, nc: st.nc },
        Ev::Insert(o, n, l) => St { ok: st.ok && l > 0 && n == st.nc, oc: st.oc, nc: st.nc + l },
        Ev::Replace(o, ol, n, nl) => St { ok: st.ok && ol > 0 && nl > 0 && o == st.oc && n == st.nc, oc: st.oc + ol, nc: st.nc + nl },
        Ev::Finish => St { ok: false, oc: st.oc, nc: st.nc },
    }
}
pub open spec fn step<Old: Index<usize> + ?Sized, New: Index<usize> + ?Sized>(old: &Old, new: &New, st: St, ev: Ev) -> St
  where New::Output: PartialEq<Old::Output>
{ step_rel(rel_of(old, new), st, ev) }
pub open spec fn run<Old: Index<usize> + ?Sized, New: Index<usize> + ?Sized>(old: &Old, new: &New, st: St, s: Seq<Ev>) -> St
  where New::Output: PartialEq<Old::Output>
  decreases s.len()
{
    if s.len() == 0 { st } else { step(old, new, run(old, new, st, s.drop_last()), s.last()) }
}
pub proof fn lemma_run_push<Old: Index<usize> + ?Sized, New: Index<usize> + ?Sized>(old: &Old, new: &New, st: St, s: Seq<Ev>, e: Ev)
  where New::Output: PartialEq<Old::Output>
  ensures run(old, new, st, s.push(e)) == step(old, new, run(old, new, st, s), e)
{
    assert(s.push(e).drop_last() =~= s);
}
pub proof fn lemma_run_concat<Old: Index<usize> + ?Sized, New: Index<usize> + ?Sized>(old: &Old, new: &New, st: St, a: Seq<Ev>, b: Seq<Ev>)
  where New::Output: PartialEq<Old::Output>
  ensures run(old, new, st, a + b) == run(old, new, run(old, new, st, a), b)
  decreases b.len()
{
    if b.len() == 0 { assert(a + b =~= a); }
    else {
        lemma_run_concat(old, new, st, a, b.drop_last());
        assert((a + b).drop_last() =~= a + b.drop_last());
        assert((a+b).last() == b.last());
    }
}

pub proof fn lemma_run_push_all<Old: Index<usize> + ?Sized, New: Index<usize> + ?Sized>(old: &Old, new: &New, s: Seq<Ev>, e: Ev)
  where New::Output: PartialEq<Old::Output>
  ensures forall|st: St| #![trigger run(old, new, st, s.push(e))] run(old, new, st, s.push(e)) == step(old, new, run(old, new, st, s), e)
{
    assert forall|st: St| #![trigger run(old, new, st, s.push(e))] run(old, new, st, s.push(e)) == step(old, new, run(old, new, st, s), e) by { lemma_run_push(old, new, st, s, e); }
}
pub proof fn lemma_run_concat_all<Old: Index<usize> + ?Sized, New: Index<usize> + ?Sized>(old: &Old, new: &New, a: Seq<Ev>, b: Seq<Ev>)
  where New::Output: PartialEq<Old::Output>
  ensures forall|st: St| #![trigger run(old, new, st, a + b)] run(old, new, st, a + b) == run(old, new, run(old, new, st, a), b)
{
    assert forall|st: St| #![trigger run(old, new, st, a + b)] run(old, new, st, a + b) == run(old, new, run(old, new, st, a), b) by { lemma_run_concat(old, new, st, a, b); }
}
pub trait DiffHook: Sized {
    type Error;
    spec fn trace(&self) -> Seq<Ev>;
    spec fn failed(&self) -> bool;
    spec fn relies(&self) -> bool;
    spec fn rely_rel(&self) -> Rel;
    spec fn rely_st(&self) -> St;
    fn equal(&mut self, old_index: usize, new_index: usize, len: usize) -> (r: Result<(), Self::Error>)
        requires !(*old(self)).failed(), (*old(self)).relies() ==> step_rel((*old(self)).rely_rel(), (*old(self)).rely_st(), Ev::Equal(old_index, new_index, len)).ok,
        ensures (*final(self)).trace() == (*old(self)).trace().push(Ev::Equal(old_index, new_index, len)),
                (*final(self)).relies() == (*old(self)).relies(), (*final(self)).rely_rel() == (*old(self)).rely_rel(),
                (*final(self)).rely_st() == step_rel((*old(self)).rely_rel(), (*old(self)).rely_st(), Ev::Equal(old_index, new_index, len)),
                (*final(self)).failed() == r.is_err();
    fn delete(&mut self, old_index: usize, old_len: usize, new_index: usize) -> (r: Result<(), Self::Error>)
        requires !(*old(self)).failed(), (*old(self)).relies() ==> step_rel((*old(self)).rely_rel(), (*old(self)).rely_st(), Ev::Delete(old_index, old_len, new_index)).ok,
        ensures (*final(self)).trace() == (*old(self)).trace().push(Ev::Delete(old_index, old_len, new_index)),
                (*final(self)).relies() == (*old(self)).relies(), (*final(self)).rely_rel() == (*old(self)).rely_rel(),
                (*final(self)).rely_st() == step_rel((*old(self)).rely_rel(), (*old(self)).rely_st(), Ev::Delete(old_index, old_len, new_index)),
                (*final(self)).failed() == r.is_err();
    fn insert(&mut self, old_index: usize, new_index: usize, new_len: usize) -> (r: Result<(), Self::Error>)
        requires !(*old(self)).failed(), (*old(self)).relies() ==> step_rel((*old(self)).rely_rel(), (*old(self)).rely_st(), Ev::Insert(old_index, new_index, new_len)).ok,
        ensures (*final(self)).trace() == (*old(self)).trace().push(Ev::Insert(old_index, new_index, new_len)),
                (*final(self)).relies() == (*old(self)).relies(), (*final(self)).rely_rel() == (*old(self)).rely_rel(),
                (*final(self)).rely_st() == step_rel((*old(self)).rely_rel(), (*old(self)).rely_st(), Ev::Insert(old_index, new_index, new_len)),
                (*final(self)).failed() == r.is_err();
    fn finish(&mut self) -> (r: Result<(), Self::Error>)
        requires !(*old(self)).failed(),
        ensures (*final(self)).trace() == (*old(self)).trace().push(Ev::Finish),
                (*final(self)).relies() == (*old(self)).relies(), (*final(self)).rely_rel() == (*old(self)).rely_rel(),
                (*final(self)).failed() == r.is_err();
}

pub assume_specification<Idx: Clone>[ <Range<Idx> as Clone>::clone ](r: &Range<Idx>) -> (c: Range<Idx>)
    ensures call_ensures(Idx::clone, (&r.start,), c.start), call_ensures(Idx::clone, (&r.end,), c.end);
pub struct V { pub offset: isize, pub v: Vec<usize> }

pub fn is_empty_range(range: &Range<usize>) -> (r: bool)
    ensures r == !(range.start < range.end)
{
    !(range.start < range.end)
}
#[verifier::external_body]
pub fn common_prefix_len<Old, New>(old: &Old, old_range: Range<usize>, new: &New, new_range: Range<usize>) -> (r: usize)
where Old: Index<usize> + ?Sized, New: Index<usize> + ?Sized, New::Output: PartialEq<Old::Output>,
    requires inb(old, old_range), inb(new, new_range),
    ensures
        old_range.start + r <= old_range.end || r == 0, new_range.start + r <= new_range.end || r == 0,
        forall|i: int| 0 <= i < r ==> #[trigger] relk(rel_of(old, new), old_range.start as int, new_range.start as int, i),
        (old_range.start + r < old_range.end && new_range.start + r < new_range.end) ==> !eqv(old, old_range.start + r, new, new_range.start + r),
{ unimplemented!() }
#[verifier::external_body]
pub fn common_suffix_len<Old, New>(old: &Old, old_range: Range<usize>, new: &New, new_range: Range<usize>) -> (r: usize)
where Old: Index<usize> + ?Sized, New: Index<usize> + ?Sized, New::Output: PartialEq<Old::Output>,
    requires inb(old, old_range), inb(new, new_range),
    ensures
        old_range.start + r <= old_range.end || r == 0, new_range.start + r <= new_range.end || r == 0,
        forall|i: int| 0 <= i < r ==> #[trigger] relk(rel_of(old, new), old_range.end - r, new_range.end - r, i),
{ unimplemented!() }

#[verifier::external_body]
fn find_middle_snake<Old, New>(old: &Old, old_range: Range<usize>, new: &New, new_range: Range<usize>, vf: &mut V, vb: &mut V, deadline: Option<Instant>,
) -> (r: Option<(usize, usize)>)
where Old: Index<usize> + ?Sized, New: Index<usize> + ?Sized, New::Output: PartialEq<Old::Output>,
    requires inb(old, old_range), inb(new, new_range), old_range.start < old_range.end, new_range.start < new_range.end,
    ensures r matches Some((x, y)) ==> old_range.start <= x <= old_range.end && new_range.start <= y <= new_range.end,
{ unimplemented!() }

#[inline(always)]
fn split_at(range: Range<usize>, at: usize) -> (r: (Range<usize>, Range<usize>))
    ensures r.0.start == range.start, r.0.end == at, r.1.start == at, r.1.end == range.end
{
    (range.start..at, at..range.end)
}

pub open spec fn box_ok(st: St, o: Range<usize>, n: Range<usize>) -> bool { st.ok && st.oc == o.start && st.nc == n.start }

#[allow(clippy::too_many_arguments)]
#[verifier::exec_allows_no_decreases_clause]
fn conquer<Old, New, D>(
    d: &mut D,
    old: &Old,
    mut old_range: Range<usize>,
    new: &New,
    mut new_range: Range<usize>,
    vf: &mut V,
    vb: &mut V,
    deadline: Option<Instant>,
) -> (res: Result<(), D::Error>)
where
    Old: Index<usize> + ?Sized,
    New: Index<usize> + ?Sized,
    D: DiffHook,
    New::Output: PartialEq<Old::Output>,
    requires
        !(*vstd::prelude::old(d)).failed(),
        (*vstd::prelude::old(d)).relies() ==> (*vstd::prelude::old(d)).rely_rel() == rel_of(old, new) && box_ok((*vstd::prelude::old(d)).rely_st(), old_range, new_range),
        inb(old, old_range), inb(new, new_range),
        old_range.start <= old_range.end, new_range.start <= new_range.end,
    ensures
        (*final(d)).failed() == res.is_err(),
        res.is_ok() ==> exists|s: Seq<Ev>| (*final(d)).trace() == (*vstd::prelude::old(d)).trace() + s
            && (forall|st: St| #![trigger run(old, new, st, s)] box_ok(st, old_range, new_range) ==> {
                let st2 = run(old, new, st, s);
                st2.ok && st2.oc == old_range.end && st2.nc == new_range.end })
            && ((*vstd::prelude::old(d)).relies() ==> (*final(d)).rely_st() == run(old, new, (*vstd::prelude::old(d)).rely_st(), s)),
        (*final(d)).relies() == (*vstd::prelude::old(d)).relies(), (*final(d)).rely_rel() == (*vstd::prelude::old(d)).rely_rel(),
{
    broadcast use {axiom_pure_index, axiom_pure_eq};
    let ghost or0 = old_range; let ghost nr0 = new_range;
    let ghost t0 = d.trace();
    let ghost mut s: Seq<Ev> = Seq::empty();
    let ghost rs0 = d.rely_st(); let ghost d0 = *d;
    proof { assert(run(old, new, rs0, s) == rs0); }
    // Check for common prefix
    let common_prefix_len = common_prefix_len(old, old_range.clone(), new, new_range.clone());
    if common_prefix_len > 0 {
        d.equal(old_range.start, new_range.start, common_prefix_len)?;
        proof { lemma_run_push_all(old, new, s, Ev::Equal(old_range.start, new_range.start, common_prefix_len)); s = s.push(Ev::Equal(old_range.start, new_range.start, common_prefix_len)); assert(d0.relies() ==> d.rely_st() == run(old, new, rs0, s)); }
    }
    old_range.start += common_prefix_len;
    new_range.start += common_prefix_len;

    // Check for common suffix
    let common_suffix_len = common_suffix_len(old, old_range.clone(), new, new_range.clone());
    let common_suffix = (
        old_range.end - common_suffix_len,
        new_range.end - common_suffix_len,
    );
    old_range.end -= common_suffix_len;
    new_range.end -= common_suffix_len;

    if is_empty_range(&old_range) && is_empty_range(&new_range) {
        // Do nothing
    } else if is_empty_range(&new_range) {
        d.delete(old_range.start, old_range.len(), new_range.start)?;
        proof { let e = Ev::Delete(old_range.start, (old_range.end - old_range.start) as usize, new_range.start); lemma_run_push_all(old, new, s, e); s = s.push(e); assert(d0.relies() ==> d.rely_st() == run(old, new, rs0, s)); }
    } else if is_empty_range(&old_range) {
        d.insert(old_range.start, new_range.start, new_range.len())?;
        proof { let e = Ev::Insert(old_range.start, new_range.start, (new_range.end - new_range.start) as usize); lemma_run_push_all(old, new, s, e); s = s.push(e); assert(d0.relies() ==> d.rely_st() == run(old, new, rs0, s)); }
    } else if let Some((x_start, y_start)) = find_middle_snake(
        old,
        old_range.clone(),
        new,
        new_range.clone(),
        vf,
        vb,
        deadline,
    ) {
        let (old_a, old_b) = split_at(old_range, x_start);
        let (new_a, new_b) = split_at(new_range, y_start);
        let ghost ta = d.trace(); let ghost rsa = d.rely_st();
        conquer(d, old, old_a, new, new_a, vf, vb, deadline)?;
        proof { let sa = choose|sa: Seq<Ev>| d.trace() == ta + sa && (forall|st: St| #![trigger run(old, new, st, sa)] box_ok(st, old_a, new_a) ==> { let st2 = run(old, new, st, sa); st2.ok && st2.oc == old_a.end && st2.nc == new_a.end }) && (d0.relies() ==> d.rely_st() == run(old, new, rsa, sa));
            lemma_run_concat_all(old, new, s, sa); assert((t0 + s) + sa =~= t0 + (s + sa)); s = s + sa; assert(d0.relies() ==> d.rely_st() == run(old, new, rs0, s)); }
        let ghost tb = d.trace(); let ghost rsb = d.rely_st();
        conquer(d, old, old_b, new, new_b, vf, vb, deadline)?;
        proof { let sb = choose|sb: Seq<Ev>| d.trace() == tb + sb && (forall|st: St| #![trigger run(old, new, st, sb)] box_ok(st, old_b, new_b) ==> { let st2 = run(old, new, st, sb); st2.ok && st2.oc == old_b.end && st2.nc == new_b.end }) && (d0.relies() ==> d.rely_st() == run(old, new, rsb, sb));
            lemma_run_concat_all(old, new, s, sb); assert((t0 + s) + sb =~= t0 + (s + sb)); s = s + sb; assert(d0.relies() ==> d.rely_st() == run(old, new, rs0, s)); }
    } else {
        d.delete(
            old_range.start,
            old_range.end - old_range.start,
            new_range.start,
        )?;
        proof { let e = Ev::Delete(old_range.start, (old_range.end - old_range.start) as usize, new_range.start); lemma_run_push_all(old, new, s, e); s = s.push(e); assert(d0.relies() ==> d.rely_st() == run(old, new, rs0, s)); }
        d.insert(
            old_range.start,
            new_range.start,
            new_range.end - new_range.start,
        )?;
        proof { let e = Ev::Insert(old_range.start, new_range.start, (new_range.end - new_range.start) as usize); lemma_run_push_all(old, new, s, e); s = s.push(e); assert(d0.relies() ==> d.rely_st() == run(old, new, rs0, s)); }
    }

    if common_suffix_len > 0 {
        d.equal(common_suffix.0, common_suffix.1, common_suffix_len)?;
        proof { let e = Ev::Equal(common_suffix.0, common_suffix.1, common_suffix_len); lemma_run_push_all(old, new, s, e); s = s.push(e); assert(d0.relies() ==> d.rely_st() == run(old, new, rs0, s)); }
    }

    proof { assert(d.trace() == t0 + s); assert(d0.relies() ==> d.rely_st() == run(old, new, rs0, s)); }
    Ok(())
}

#[verifier::external_body]
pub fn deadline_exceeded(deadline: Option<Instant>) -> bool { unimplemented!() }
mod lcs { use super::*;
#[verifier::exec_allows_no_decreases_clause]
pub fn diff_deadline<Old, New, D>(
    d: &mut D,
    old: &Old,
    old_range: Range<usize>,
    new: &New,
    new_range: Range<usize>,
    deadline: Option<Instant>,
) -> (res: Result<(), D::Error>)
where
    Old: Index<usize> + ?Sized,
    New: Index<usize> + ?Sized,
    D: DiffHook,
    New::Output: PartialEq<Old::Output>,
    requires
        !(*vstd::prelude::old(d)).failed(),
        (*vstd::prelude::old(d)).relies() ==> (*vstd::prelude::old(d)).rely_rel() == rel_of(old, new) && box_ok((*vstd::prelude::old(d)).rely_st(), old_range, new_range),
        inb(old, old_range), inb(new, new_range),
        old_range.start <= old_range.end, new_range.start <= new_range.end,
    ensures
        (*final(d)).failed() == res.is_err(),
        res.is_ok() ==> exists|s: Seq<Ev>| (*final(d)).trace() == (*vstd::prelude::old(d)).trace() + s.push(Ev::Finish)
            && (forall|st: St| #![trigger run(old, new, st, s)] box_ok(st, old_range, new_range) ==> {
                let st2 = run(old, new, st, s);
                st2.ok && st2.oc == old_range.end && st2.nc == new_range.end }),
{
    if is_empty_range(&new_range) {
        d.delete(old_range.start, old_range.len(), new_range.start)?;
        d.finish()?;
        return Ok(());
    } else if is_empty_range(&old_range) {
        d.insert(old_range.start, new_range.start, new_range.len())?;
        d.finish()?;
        return Ok(());
    }

    let common_prefix_len = common_prefix_len(old, old_range.clone(), new, new_range.clone());
    let common_suffix_len = common_suffix_len(
        old,
        old_range.start + common_prefix_len..old_range.end,
        new,
        new_range.start + common_prefix_len..new_range.end,
    );

    // If the sequences are not different then we're done
    if common_prefix_len == old_range.len() && (old_range.len() == new_range.len()) {
        d.equal(0, 0, old_range.len())?;
        d.finish()?;
        return Ok(());
    }

    let maybe_table = make_table(
        old,
        common_prefix_len..(old_range.len() - common_suffix_len),
        new,
        common_prefix_len..(new_range.len() - common_suffix_len),
        deadline,
    );
    let mut old_idx = 0;
    let mut new_idx = 0;
    let new_len = new_range.len() - common_prefix_len - common_suffix_len;
    let old_len = old_range.len() - common_prefix_len - common_suffix_len;

    if common_prefix_len > 0 {
        d.equal(old_range.start, new_range.start, common_prefix_len)?;
    }

    if let Some(table) = maybe_table {
        while new_idx < new_len && old_idx < old_len {
            let old_orig_idx = old_range.start + common_prefix_len + old_idx;
            let new_orig_idx = new_range.start + common_prefix_len + new_idx;

            if new[new_orig_idx] == old[old_orig_idx] {
                d.equal(old_orig_idx, new_orig_idx, 1)?;
                old_idx += 1;
                new_idx += 1;
            } else if table.get(&(new_idx, old_idx + 1)).unwrap_or(&0)
                >= table.get(&(new_idx + 1, old_idx)).unwrap_or(&0)
            {
                d.delete(old_orig_idx, 1, new_orig_idx)?;
                old_idx += 1;
            } else {
                d.insert(old_orig_idx, new_orig_idx, 1)?;
                new_idx += 1;
            }
        }
    } else {
        let old_orig_idx = old_range.start + common_prefix_len + old_idx;
        let new_orig_idx = new_range.start + common_prefix_len + new_idx;
        d.delete(old_orig_idx, old_len, new_orig_idx)?;
        d.insert(old_orig_idx, new_orig_idx, new_len)?;
    }

    if old_idx < old_len {
        d.delete(
            old_range.start + common_prefix_len + old_idx,
            old_len - old_idx,
            new_range.start + common_prefix_len + new_idx,
        )?;
        old_idx += old_len - old_idx;
    }

    if new_idx < new_len {
        d.insert(
            old_range.start + common_prefix_len + old_idx,
            new_range.start + common_prefix_len + new_idx,
            new_len - new_idx,
        )?;
    }

    if common_suffix_len > 0 {
        d.equal(
            old_range.start + old_len + common_prefix_len,
            new_range.start + new_len + common_prefix_len,
            common_suffix_len,
        )?;
    }

    d.finish()
}

#[verifier::exec_allows_no_decreases_clause]
fn make_table<Old, New>(
    old: &Old,
    old_range: Range<usize>,
    new: &New,
    new_range: Range<usize>,
    deadline: Option<Instant>,
) -> Option<BTreeMap<(usize, usize), u32>>
where
    Old: Index<usize> + ?Sized,
    New: Index<usize> + ?Sized,
    New::Output: PartialEq<Old::Output>,
    requires inb(old, old_range), inb(new, new_range), old_range.start <= old_range.end, new_range.start <= new_range.end,
{
    let old_len = old_range.len();
    let new_len = new_range.len();
    let mut table = BTreeMap::new();

    for i in (0..new_len).rev() {
        // are we running for too long?  give up on the table
        if deadline_exceeded(deadline) {
            return None;
        }

        for j in (0..old_len).rev() {
            let val = if new[i] == old[j] {
                table.get(&(i + 1, j + 1)).unwrap_or(&0) + 1
            } else {
                *table
                    .get(&(i + 1, j))
                    .unwrap_or(&0)
                    .max(table.get(&(i, j + 1)).unwrap_or(&0))
            };
            if val > 0 {
                table.insert((i, j), val);
            }
        }
    }

    Some(table)
}


}
} // verus!
fn main() {}
