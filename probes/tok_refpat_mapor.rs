// C06 / unit `tok`: why rewrites R12 and R13 exist.  Verus (0.2026.09.13) rejects the reference pattern
// `Some(&(_, c))` ("ref patterns") and has no specification for `Option::map_or` with an unspecified closure.
// Expected: error "The verifier does not yet support the following Rust feature: ref patterns"; with that loop
// removed: "`core::option::impl&%0::map_or` is not supported".
use vstd::prelude::*;
verus! {
#[verifier::exec_allows_no_decreases_clause]
fn f(v: &Vec<(usize, char)>) -> bool {
    let mut it = v.iter();
    while let Some(&(_, c)) = it.next() {
        if c == 'x' { break; }
    }
    v.first().map_or(false, |x| x.1 == '\n')
}
}
fn main() {}
