// C06 / unit `tok`: runtime cross-check (NOT a Verus file) of (a) every assumed dependency contract of
// contracts/tokens.rs and contracts/tokens_bytes.rs (str::char_indices, Peekable::peek / peekable, str slicing,
// bstr char_indices) and (b) executable twins of the specification predicates (partition, line_tok_ok, run_tok_ok,
// str/bytes agreement) against the real tokenizers, exhaustively over short strings.
// How to run (scratch dir outside /repo and /verif; offline):
//   mkdir -p /var/tmp/tokchk/src && cp this file /var/tmp/tokchk/src/main.rs, with a Cargo.toml that has
//   [dependencies] similar = { path = "<copy of /repo>", default-features = false, features = ["text", "bytes"] }
//                  bstr = { version = "1.5.0", default-features = false }
//   cargo build --offline --release && ./target/release/tokchk
// Result on 2026-10-04 (bstr 1.13.1): "ok: 177156 byte strings" / "ok: 66430 strings" (alphabets in main()).
// sanity checks of the assumed std contracts and of the specification (executable twins) against the real crate
use similar::DiffableStr;

fn utf8_len_prefix(cs: &[char], i: usize) -> usize { cs[..i].iter().map(|c| c.len_utf8()).sum() }

fn is_nl(c: char) -> bool { c == '\r' || c == '\n' }
fn term_len(cs: &[char], a: usize, b: usize) -> usize {
    if b - a >= 2 && cs[b - 2] == '\r' && cs[b - 1] == '\n' { 2 } else if b - a >= 1 && is_nl(cs[b - 1]) { 1 } else { 0 }
}
fn line_tok_ok(cs: &[char], a: usize, b: usize) -> bool {
    let t = term_len(cs, a, b);
    (a..b - t).all(|j| !is_nl(cs[j])) && (t != 0 || b == cs.len()) && (cs[b - 1] != '\r' || b == cs.len() || cs[b] != '\n')
}
fn run_tok_ok(cs: &[char], cls: &dyn Fn(char) -> bool, a: usize, b: usize) -> bool {
    (a..b).all(|j| cls(cs[j]) == cls(cs[a])) && (b >= cs.len() || cls(cs[b]) != cls(cs[a]))
}
// partition: returns the char cut points if toks are contiguous non-empty pieces of s
fn cuts(s: &str, toks: &[&str]) -> Option<Vec<usize>> {
    let cs: Vec<char> = s.chars().collect();
    let mut c = vec![0usize];
    let mut bytepos = 0usize;
    for t in toks {
        if t.is_empty() { return None; }
        let a = *c.last().unwrap();
        let b = a + t.chars().count();
        if b > cs.len() || t.chars().collect::<Vec<_>>() != cs[a..b] { return None; }
        if utf8_len_prefix(&cs, a) != bytepos || s.as_bytes()[bytepos..bytepos + t.len()] != *t.as_bytes() { return None; }
        bytepos += t.len();
        c.push(b);
    }
    if *c.last().unwrap() != cs.len() || bytepos != s.len() { return None; }
    if toks.concat() != s { return None; }
    Some(c)
}

fn check(s: &str) {
    let cs: Vec<char> = s.chars().collect();
    // A: char_indices = (utf8 length of the preceding chars, char)
    let ci: Vec<(usize, char)> = s.char_indices().collect();
    assert_eq!(ci.len(), cs.len());
    for (i, (o, c)) in ci.iter().enumerate() {
        assert_eq!(*o, utf8_len_prefix(&cs, i)); assert_eq!(*c, cs[i]);
        assert!(s.is_char_boundary(*o)); assert!(s.is_char_boundary(*o + c.len_utf8()));
        assert!((1..=4).contains(&c.len_utf8()));
    }
    // B: peekable: same items; peek = the item next returns, does not advance
    let mut p = s.char_indices().peekable();
    let mut k = 0;
    loop {
        let pk = p.peek().copied();
        let pk2 = p.peek().copied();
        assert_eq!(pk, pk2);
        assert_eq!(pk, ci.get(k).copied());
        let nx = p.next();
        assert_eq!(nx, pk);
        if nx.is_none() { assert!(p.peek().is_none()); break; }
        k += 1;
    }
    // C: slicing = byte sub-range
    for a in 0..=s.len() { for b in a..=s.len() {
        if s.is_char_boundary(a) && s.is_char_boundary(b) {
            assert_eq!(s[a..b].as_bytes(), &s.as_bytes()[a..b]);
            if b > a { assert_eq!(s[a..=b - 1].as_bytes(), &s.as_bytes()[a..b]); }
            if b == s.len() { assert_eq!(s[a..].as_bytes(), &s.as_bytes()[a..]); }
        }
    } }
    // D: the real tokenizers meet the executable twins of the specification
    let l = s.tokenize_lines();
    let c = cuts(s, &l).expect("lines: partition");
    for k in 0..l.len() { assert!(line_tok_ok(&cs, c[k], c[k + 1]), "lines {:?} {:?}", s, l); }
    let w = s.tokenize_words();
    let c = cuts(s, &w).expect("words: partition");
    for k in 0..w.len() { assert!(run_tok_ok(&cs, &|c: char| c.is_whitespace(), c[k], c[k + 1]), "words {:?} {:?}", s, w); }
    let n = s.tokenize_lines_and_newlines();
    let c = cuts(s, &n).expect("lnl: partition");
    for k in 0..n.len() { assert!(run_tok_ok(&cs, &is_nl, c[k], c[k + 1]), "lnl {:?} {:?}", s, n); }
}


fn check_bytes(b: &[u8]) {
    use bstr::ByteSlice;
    let p: Vec<(usize, usize, char)> = b.char_indices().collect();
    // axiom_bstr_char_indices
    if p.is_empty() { assert_eq!(b.len(), 0); } else { assert_eq!(p[0].0, 0); assert_eq!(p.last().unwrap().1, b.len()); }
    for i in 0..p.len() {
        assert!(p[i].0 < p[i].1);
        if i + 1 < p.len() { assert_eq!(p[i].1, p[i + 1].0); }
        if p[i].2 != '\u{FFFD}' { let mut buf = [0u8; 4]; assert_eq!(&b[p[i].0..p[i].1], p[i].2.encode_utf8(&mut buf).as_bytes()); }
    }
    if let Ok(s) = std::str::from_utf8(b) {
        let q: Vec<(usize, char)> = s.char_indices().collect();
        assert_eq!(q.len(), p.len());
        for i in 0..p.len() { assert_eq!((p[i].0, p[i].2), q[i]); }
    }
    // peekable on the bstr iterator
    let mut it = b.char_indices().peekable();
    let mut k = 0;
    loop { let pk = it.peek().copied(); assert_eq!(pk, p.get(k).copied()); let nx = it.next(); assert_eq!(nx, pk); if nx.is_none() { break; } k += 1; }
    // the real [u8] tokenizers meet the executable twins of the specification over the chars bstr sees
    let cs: Vec<char> = p.iter().map(|x| x.2).collect();
    let start = |i: usize| if i < p.len() { p[i].0 } else { b.len() };
    let bcuts = |toks: &[&[u8]]| -> Option<Vec<usize>> {
        let mut c = vec![0usize]; let mut pos = 0usize;
        for t in toks {
            if t.is_empty() { return None; }
            let a = *c.last().unwrap();
            if start(a) != pos { return None; }
            let e = (a..=p.len()).find(|&e| start(e) == pos + t.len())?;
            if &b[pos..pos + t.len()] != *t { return None; }
            pos += t.len(); c.push(e);
        }
        if *c.last().unwrap() != p.len() || pos != b.len() { return None; }
        Some(c)
    };
    let l = b.tokenize_lines(); let c = bcuts(&l).expect("blines partition");
    for k in 0..l.len() { assert!(line_tok_ok(&cs, c[k], c[k + 1]), "blines {:?} {:?}", b, l); }
    let w = b.tokenize_words(); let c = bcuts(&w).expect("bwords partition");
    for k in 0..w.len() { assert!(run_tok_ok(&cs, &|c: char| c.is_whitespace(), c[k], c[k + 1])); }
    let n = b.tokenize_lines_and_newlines(); let c = bcuts(&n).expect("blnl partition");
    for k in 0..n.len() { assert!(run_tok_ok(&cs, &is_nl, c[k], c[k + 1])); }
    // agreement with the str tokenizers on valid UTF-8
    if let Ok(s) = std::str::from_utf8(b) {
        assert_eq!(s.tokenize_lines().iter().map(|t| t.as_bytes()).collect::<Vec<_>>(), l);
        assert_eq!(s.tokenize_words().iter().map(|t| t.as_bytes()).collect::<Vec<_>>(), w);
        assert_eq!(s.tokenize_lines_and_newlines().iter().map(|t| t.as_bytes()).collect::<Vec<_>>(), n);
    }
}

fn main() {
    {
        let alpha: [u8; 11] = [b'a', b' ', b'\r', b'\n', 0xC3, 0xA9, 0xE2, 0x9D, 0x84, 0xFF, 0xF0];
        let mut cnt = 0u64;
        for len in 0..=5usize {
            let mut idx = vec![0usize; len];
            loop {
                let v: Vec<u8> = idx.iter().map(|&i| alpha[i]).collect();
                check_bytes(&v); cnt += 1;
                let mut p = 0;
                while p < len { idx[p] += 1; if idx[p] < alpha.len() { break; } idx[p] = 0; p += 1; }
                if p == len { break; }
            }
        }
        println!("ok: {} byte strings", cnt);
    }

    let alphabet = ['a', ' ', '\r', '\n', 'é', '❄', '\u{10348}', '\u{3000}', '\u{85}'];
    let mut count = 0u64;
    for len in 0..=5usize {
        let mut idx = vec![0usize; len];
        loop {
            let s: String = idx.iter().map(|&i| alphabet[i]).collect();
            check(&s);
            count += 1;
            let mut p = 0;
            while p < len { idx[p] += 1; if idx[p] < alphabet.len() { break; } idx[p] = 0; p += 1; }
            if p == len { break; }
        }
    }
    // widths of CR / LF
    assert_eq!('\r'.len_utf8(), 1); assert_eq!('\n'.len_utf8(), 1);
    println!("ok: {} strings", count);
}
