use vstd::prelude::*;
use std::ops::{Index, Range};
use std::hash::Hash;
use std::time::Instant;
use vstd::std_specs::core::IndexSpec;
verus! {
#[verifier::external_type_specification]
#[verifier::external_body]
pub struct ExInstant(Instant);
pub fn is_empty_range<T: PartialOrd<T>>(range: &Range<T>) -> bool {
    !(range.start < range.end)
}
#[verifier::external_body]
pub fn deadline_exceeded(deadline: Option<Instant>) -> bool { unimplemented!() }
#[verifier::external_body]
pub fn common_prefix_len<Old, New>(old: &Old, old_range: Range<usize>, new: &New, new_range: Range<usize>) -> usize
where Old: Index<usize> + ?Sized, New: Index<usize> + ?Sized, New::Output: PartialEq<Old::Output>,
{ unimplemented!() }
#[verifier::external_body]
pub fn common_suffix_len<Old, New>(old: &Old, old_range: Range<usize>, new: &New, new_range: Range<usize>) -> usize
where Old: Index<usize> + ?Sized, New: Index<usize> + ?Sized, New::Output: PartialEq<Old::Output>,
{ unimplemented!() }
pub trait DiffHook: Sized {
    /// The error produced from the hook methods.
    type Error;

    /// Called when lines with indices `old_index` (in the old version) and
    /// `new_index` (in the new version) start an section equal in both
    /// versions, of length `len`.
    fn equal(&mut self, old_index: usize, new_index: usize, len: usize) -> Result<(), Self::Error> {
        let _ = old_index;
        let _ = new_index;
        let _ = len;
        Ok(())
    }

    /// Called when a section of length `old_len`, starting at `old_index`,
    /// needs to be deleted from the old version.
    fn delete(
        &mut self,
        old_index: usize,
        old_len: usize,
        new_index: usize,
    ) -> Result<(), Self::Error> {
        let _ = old_index;
        let _ = old_len;
        let _ = new_index;
        Ok(())
    }

    /// Called when a section of the new version, of length `new_len`
    /// and starting at `new_index`, needs to be inserted at position `old_index'.
    fn insert(
        &mut self,
        old_index: usize,
        new_index: usize,
        new_len: usize,
    ) -> Result<(), Self::Error> {
        let _ = old_index;
        let _ = new_index;
        let _ = new_len;
        Ok(())
    }

    /// Called when a section of the old version, starting at index
    /// `old_index` and of length `old_len`, needs to be replaced with a
    /// section of length `new_len`, starting at `new_index`, of the new
    /// version.
    ///
    /// The default implementations invokes `delete` and `insert`.
    ///
    /// You can use the [`Replace`](crate::algorithms::Replace) hook to
    /// automatically generate these.
    #[inline(always)]
    fn replace(
        &mut self,
        old_index: usize,
        old_len: usize,
        new_index: usize,
        new_len: usize,
    ) -> Result<(), Self::Error> {
        self.delete(old_index, old_len, new_index)?;
        self.insert(old_index, new_index, new_len)
    }

    /// Always called at the end of the algorithm.
    #[inline(always)]
    fn finish(&mut self) -> Result<(), Self::Error> {
        Ok(())
    }
}

mod myers {
use super::*;
#[verifier::external_body]
pub fn diff_deadline<Old, New, D>(
    d: &mut D,
    old: &Old,
    old_range: Range<usize>,
    new: &New,
    new_range: Range<usize>,
    deadline: Option<Instant>,
) -> Result<(), D::Error>
where
    Old: Index<usize> + ?Sized,
    New: Index<usize> + ?Sized,
    D: DiffHook,
    New::Output: PartialEq<Old::Output>,
{ unimplemented!() }
}
#[verifier::external_body]
pub fn unique<Idx>(lookup: &Idx, range: Range<usize>) -> Vec<UniqueItem<Idx>>
where
    Idx: Index<usize> + ?Sized,
    Idx::Output: Hash + Eq,
{ unimplemented!() }
pub struct UniqueItem<'a, Idx: ?Sized> {
    lookup: &'a Idx,
    index: usize,
}

impl<Idx: ?Sized> UniqueItem<'_, Idx>
where
    Idx: Index<usize>,
{
    /// Returns the value.
    #[inline(always)]
    pub fn value(&self) -> &Idx::Output {
        &self.lookup[self.index]
    }

    /// Returns the original index.
    #[inline(always)]
    pub fn original_index(&self) -> usize {
        self.index
    }
}

impl<'a, 'b, A, B> PartialEq<UniqueItem<'a, A>> for UniqueItem<'b, B>
where
    A: Index<usize> + 'b + ?Sized,
    B: Index<usize> + 'b + ?Sized,
    B::Output: PartialEq<A::Output>,
{
    #[inline(always)]
    fn eq(&self, other: &UniqueItem<'a, A>) -> bool {
        self.value() == other.value()
    }
}

impl<'a, D: DiffHook + 'a> DiffHook for &'a mut D {
    type Error = D::Error;

    #[inline(always)]
    fn equal(&mut self, old_index: usize, new_index: usize, len: usize) -> Result<(), Self::Error> {
        (*self).equal(old_index, new_index, len)
    }

    #[inline(always)]
    fn delete(
        &mut self,
        old_index: usize,
        old_len: usize,
        new_index: usize,
    ) -> Result<(), Self::Error> {
        (*self).delete(old_index, old_len, new_index)
    }

    #[inline(always)]
    fn insert(
        &mut self,
        old_index: usize,
        new_index: usize,
        new_len: usize,
    ) -> Result<(), Self::Error> {
        (*self).insert(old_index, new_index, new_len)
    }

    #[inline(always)]
    fn replace(
        &mut self,
        old: usize,
        old_len: usize,
        new: usize,
        new_len: usize,
    ) -> Result<(), Self::Error> {
        (*self).replace(old, old_len, new, new_len)
    }

    #[inline(always)]
    fn finish(&mut self) -> Result<(), Self::Error> {
        (*self).finish()
    }
}

pub struct NoFinishHook<D: DiffHook>(D);

impl<D: DiffHook> NoFinishHook<D> {
    /// Wraps another hook.
    pub fn new(d: D) -> NoFinishHook<D> {
        NoFinishHook(d)
    }

    /// Extracts the inner hook.
    pub fn into_inner(self) -> D {
        self.0
    }
}

impl<D: DiffHook> DiffHook for NoFinishHook<D> {
    type Error = D::Error;

    #[inline(always)]
    fn equal(&mut self, old_index: usize, new_index: usize, len: usize) -> Result<(), Self::Error> {
        self.0.equal(old_index, new_index, len)
    }

    #[inline(always)]
    fn delete(
        &mut self,
        old_index: usize,
        old_len: usize,
        new_index: usize,
    ) -> Result<(), Self::Error> {
        self.0.delete(old_index, old_len, new_index)
    }

    #[inline(always)]
    fn insert(
        &mut self,
        old_index: usize,
        new_index: usize,
        new_len: usize,
    ) -> Result<(), Self::Error> {
        self.0.insert(old_index, new_index, new_len)
    }

    #[inline(always)]
    fn replace(
        &mut self,
        old_index: usize,
        old_len: usize,
        new_index: usize,
        new_len: usize,
    ) -> Result<(), Self::Error> {
        self.0.replace(old_index, old_len, new_index, new_len)
    }

    fn finish(&mut self) -> Result<(), Self::Error> {
        Ok(())
    }
}
pub struct Replace<D: DiffHook> {
    d: D,
    del: Option<(usize, usize, usize)>,
    ins: Option<(usize, usize, usize)>,
    eq: Option<(usize, usize, usize)>,
}

impl<D: DiffHook> Replace<D> {
    /// Creates a new replace hook wrapping another hook.
    pub fn new(d: D) -> Self {
        Replace {
            d,
            del: None,
            ins: None,
            eq: None,
        }
    }

    /// Extracts the inner hook.
    pub fn into_inner(self) -> D {
        self.d
    }

    fn flush_eq(&mut self) -> Result<(), D::Error> {
        if let Some((eq_old_index, eq_new_index, eq_len)) = self.eq.take() {
            self.d.equal(eq_old_index, eq_new_index, eq_len)?
        }
        Ok(())
    }

    fn flush_del_ins(&mut self) -> Result<(), D::Error> {
        if let Some((del_old_index, del_old_len, del_new_index)) = self.del.take() {
            if let Some((_, ins_new_index, ins_new_len)) = self.ins.take() {
                self.d
                    .replace(del_old_index, del_old_len, ins_new_index, ins_new_len)?;
            } else {
                self.d.delete(del_old_index, del_old_len, del_new_index)?;
            }
        } else if let Some((ins_old_index, ins_new_index, ins_new_len)) = self.ins.take() {
            self.d.insert(ins_old_index, ins_new_index, ins_new_len)?;
        }
        Ok(())
    }
}

impl<D: DiffHook> AsRef<D> for Replace<D> {
    fn as_ref(&self) -> &D {
        &self.d
    }
}

impl<D: DiffHook> AsMut<D> for Replace<D> {
    fn as_mut(&mut self) -> &mut D {
        &mut self.d
    }
}

impl<D: DiffHook> DiffHook for Replace<D> {
    type Error = D::Error;

    fn equal(&mut self, old_index: usize, new_index: usize, len: usize) -> Result<(), D::Error> {
        self.flush_del_ins()?;

        self.eq = if let Some((eq_old_index, eq_new_index, eq_len)) = self.eq.take() {
            Some((eq_old_index, eq_new_index, eq_len + len))
        } else {
            Some((old_index, new_index, len))
        };

        Ok(())
    }

    fn delete(
        &mut self,
        old_index: usize,
        old_len: usize,
        new_index: usize,
    ) -> Result<(), D::Error> {
        self.flush_eq()?;
        if let Some((del_old_index, del_old_len, del_new_index)) = self.del.take() {
            assert(old_index == del_old_index + del_old_len);
            self.del = Some((del_old_index, del_old_len + old_len, del_new_index));
        } else {
            self.del = Some((old_index, old_len, new_index));
        }
        Ok(())
    }

    fn insert(
        &mut self,
        old_index: usize,
        new_index: usize,
        new_len: usize,
    ) -> Result<(), D::Error> {
        self.flush_eq()?;
        self.ins = if let Some((ins_old_index, ins_new_index, ins_new_len)) = self.ins.take() {
            assert(ins_new_index + ins_new_len == new_index);
            Some((ins_old_index, ins_new_index, new_len + ins_new_len))
        } else {
            Some((old_index, new_index, new_len))
        };

        Ok(())
    }

    fn replace(
        &mut self,
        old_index: usize,
        old_len: usize,
        new_index: usize,
        new_len: usize,
    ) -> Result<(), D::Error> {
        self.flush_eq()?;
        self.d.replace(old_index, old_len, new_index, new_len)
    }

    fn finish(&mut self) -> Result<(), D::Error> {
        self.flush_eq()?;
        self.flush_del_ins()?;
        self.d.finish()
    }
}

/// Patience diff algorithm with deadline.
///
/// Diff `old`, between indices `old_range` and `new` between indices `new_range`.
///
/// This diff is done with an optional deadline that defines the maximal
/// execution time permitted before it bails and falls back to an approximation.
pub fn diff_deadline<Old, New, D>(
    d: &mut D,
    old: &Old,
    old_range: Range<usize>,
    new: &New,
    new_range: Range<usize>,
    deadline: Option<Instant>,
) -> Result<(), D::Error>
where
    Old: Index<usize> + ?Sized,
    New: Index<usize> + ?Sized,
    Old::Output: Hash + Eq,
    New::Output: PartialEq<Old::Output> + Hash + Eq,
    D: DiffHook,
{
    let old_indexes = unique(old, old_range.clone());
    let new_indexes = unique(new, new_range.clone());

    let mut d = Replace::new(Patience {
        d,
        old,
        old_current: old_range.start,
        old_end: old_range.end,
        old_indexes: &old_indexes,
        new,
        new_current: new_range.start,
        new_end: new_range.end,
        new_indexes: &new_indexes,
        deadline,
    });
    myers::diff_deadline(
        &mut d,
        &old_indexes,
        0..old_indexes.len(),
        &new_indexes,
        0..new_indexes.len(),
        deadline,
    )?;
    Ok(())
}

struct Patience<'old, 'new, 'd, Old: ?Sized, New: ?Sized, D> {
    d: &'d mut D,
    old: &'old Old,
    old_current: usize,
    old_end: usize,
    old_indexes: &'old [UniqueItem<'old, Old>],
    new: &'new New,
    new_current: usize,
    new_end: usize,
    new_indexes: &'new [UniqueItem<'new, New>],
    deadline: Option<Instant>,
}

impl<'old, 'new, 'd, Old, New, D> DiffHook for Patience<'old, 'new, 'd, Old, New, D>
where
    D: DiffHook + 'd,
    Old: Index<usize> + ?Sized + 'old,
    New: Index<usize> + ?Sized + 'new,
    New::Output: PartialEq<Old::Output>,
{
    type Error = D::Error;
    #[verifier::exec_allows_no_decreases_clause]
    fn equal(&mut self, old: usize, new: usize, len: usize) -> Result<(), D::Error> {
        for (old, new) in (old..old + len).zip(new..new + len) {
            let a0 = self.old_current;
            let b0 = self.new_current;
            while self.old_current < self.old_indexes[old].original_index()
                && self.new_current < self.new_indexes[new].original_index()
                && self.new[self.new_current] == self.old[self.old_current]
            {
                self.old_current += 1;
                self.new_current += 1;
            }
            if self.old_current > a0 {
                self.d.equal(a0, b0, self.old_current - a0)?;
            }
            let mut no_finish_d = NoFinishHook::new(&mut self.d);
            myers::diff_deadline(
                &mut no_finish_d,
                self.old,
                self.old_current..self.old_indexes[old].original_index(),
                self.new,
                self.new_current..self.new_indexes[new].original_index(),
                self.deadline,
            )?;
            self.old_current = self.old_indexes[old].original_index();
            self.new_current = self.new_indexes[new].original_index();
        }
        Ok(())
    }

    fn finish(&mut self) -> Result<(), D::Error> {
        myers::diff_deadline(
            self.d,
            self.old,
            self.old_current..self.old_end,
            self.new,
            self.new_current..self.new_end,
            self.deadline,
        )
    }
}



use std::convert::Infallible;
mod patience { pub use super::diff_deadline; }
mod lcs { use super::*;
#[verifier::external_body]
pub fn diff_deadline<Old, New, D>(d: &mut D, old: &Old, old_range: Range<usize>, new: &New, new_range: Range<usize>, deadline: Option<Instant>,
) -> Result<(), D::Error>
where Old: Index<usize> + ?Sized, New: Index<usize> + ?Sized, D: DiffHook, New::Output: PartialEq<Old::Output>,
{ unimplemented!() }
}
#[verifier::external_body]
pub fn cleanup_diff_ops<Old, New>(old: &Old, new: &New, ops: &mut Vec<DiffOp>)
where
    Old: Index<usize> + ?Sized,
    New: Index<usize> + ?Sized,
    New::Output: PartialEq<Old::Output>,
{}
#[derive(Debug, PartialEq, Eq, Hash, Clone, Copy)]
pub enum DiffOp {
    /// A segment is equal (see [`DiffHook::equal`])
    Equal {
        /// The starting index in the old sequence.
        old_index: usize,
        /// The starting index in the new sequence.
        new_index: usize,
        /// The length of the segment.
        len: usize,
    },
    /// A segment was deleted (see [`DiffHook::delete`])
    Delete {
        /// The starting index in the old sequence.
        old_index: usize,
        /// The length of the old segment.
        old_len: usize,
        /// The starting index in the new sequence.
        new_index: usize,
    },
    /// A segment was inserted (see [`DiffHook::insert`])
    Insert {
        /// The starting index in the old sequence.
        old_index: usize,
        /// The starting index in the new sequence.
        new_index: usize,
        /// The length of the new segment.
        new_len: usize,
    },
    /// A segment was replaced (see [`DiffHook::replace`])
    Replace {
        /// The starting index in the old sequence.
        old_index: usize,
        /// The length of the old segment.
        old_len: usize,
        /// The starting index in the new sequence.
        new_index: usize,
        /// The length of the new segment.
        new_len: usize,
    },
}
#[derive(Debug, PartialEq, Eq, Hash, Clone, Copy, Ord, PartialOrd)]
pub enum DiffTag {
    /// The diff op encodes an equal segment.
    Equal,
    /// The diff op encodes a deleted segment.
    Delete,
    /// The diff op encodes an inserted segment.
    Insert,
    /// The diff op encodes a replaced segment.
    Replace,
}
impl DiffOp {
    /// Returns the tag of the operation.
    pub fn tag(self) -> DiffTag {
        self.as_tag_tuple().0
    }

    /// Returns the old range.
    pub fn old_range(&self) -> Range<usize> {
        self.as_tag_tuple().1
    }

    /// Returns the new range.
    pub fn new_range(&self) -> Range<usize> {
        self.as_tag_tuple().2
    }

    /// Transform the op into a tuple of diff tag and ranges.
    ///
    /// This is useful when operating on slices.  The returned format is
    /// `(tag, i1..i2, j1..j2)`:
    ///
    /// * `Replace`: `a[i1..i2]` should be replaced by `b[j1..j2]`
    /// * `Delete`: `a[i1..i2]` should be deleted (`j1 == j2` in this case).
    /// * `Insert`: `b[j1..j2]` should be inserted at `a[i1..i2]` (`i1 == i2` in this case).
    /// * `Equal`: `a[i1..i2]` is equal to `b[j1..j2]`.
    pub fn as_tag_tuple(&self) -> (DiffTag, Range<usize>, Range<usize>) {
        match *self {
            DiffOp::Equal {
                old_index,
                new_index,
                len,
            } => (
                DiffTag::Equal,
                old_index..old_index + len,
                new_index..new_index + len,
            ),
            DiffOp::Delete {
                old_index,
                new_index,
                old_len,
            } => (
                DiffTag::Delete,
                old_index..old_index + old_len,
                new_index..new_index,
            ),
            DiffOp::Insert {
                old_index,
                new_index,
                new_len,
            } => (
                DiffTag::Insert,
                old_index..old_index,
                new_index..new_index + new_len,
            ),
            DiffOp::Replace {
                old_index,
                old_len,
                new_index,
                new_len,
            } => (
                DiffTag::Replace,
                old_index..old_index + old_len,
                new_index..new_index + new_len,
            ),
        }
    }

    /// Apply this operation to a diff hook.
    pub fn apply_to_hook<D: DiffHook>(&self, d: &mut D) -> Result<(), D::Error> {
        match *self {
            DiffOp::Equal {
                old_index,
                new_index,
                len,
            } => d.equal(old_index, new_index, len),
            DiffOp::Delete {
                old_index,
                old_len,
                new_index,
            } => d.delete(old_index, old_len, new_index),
            DiffOp::Insert {
                old_index,
                new_index,
                new_len,
            } => d.insert(old_index, new_index, new_len),
            DiffOp::Replace {
                old_index,
                old_len,
                new_index,
                new_len,
            } => d.replace(old_index, old_len, new_index, new_len),
        }
    }


    pub(crate) fn is_empty(&self) -> bool {
        let (_, old, new) = self.as_tag_tuple();
        is_empty_range(&old) && is_empty_range(&new)
    }

    pub(crate) fn shift_left(&mut self, adjust: usize) {
        self.adjust((adjust, true), (0, false));
    }

    pub(crate) fn shift_right(&mut self, adjust: usize) {
        self.adjust((adjust, false), (0, false));
    }

    pub(crate) fn grow_left(&mut self, adjust: usize) {
        self.adjust((adjust, true), (adjust, false));
    }

    pub(crate) fn grow_right(&mut self, adjust: usize) {
        self.adjust((0, false), (adjust, false));
    }

    pub(crate) fn shrink_left(&mut self, adjust: usize) {
        self.adjust((0, false), (adjust, true));
    }

    pub(crate) fn shrink_right(&mut self, adjust: usize) {
        self.adjust((adjust, false), (adjust, true));
    }

    fn adjust(&mut self, adjust_offset: (usize, bool), adjust_len: (usize, bool)) {
        #[inline(always)]
        fn modify(val: &mut usize, adj: (usize, bool)) {
            if adj.1 {
                *val -= adj.0;
            } else {
                *val += adj.0;
            }
        }

        match self {
            DiffOp::Equal {
                old_index,
                new_index,
                len,
            } => {
                modify(old_index, adjust_offset);
                modify(new_index, adjust_offset);
                modify(len, adjust_len);
            }
            DiffOp::Delete {
                old_index,
                old_len,
                new_index,
            } => {
                modify(old_index, adjust_offset);
                modify(old_len, adjust_len);
                modify(new_index, adjust_offset);
            }
            DiffOp::Insert {
                old_index,
                new_index,
                new_len,
            } => {
                modify(old_index, adjust_offset);
                modify(new_index, adjust_offset);
                modify(new_len, adjust_len);
            }
            DiffOp::Replace {
                old_index,
                old_len,
                new_index,
                new_len,
            } => {
                modify(old_index, adjust_offset);
                modify(old_len, adjust_len);
                modify(new_index, adjust_offset);
                modify(new_len, adjust_len);
            }
        }
    }
}
/// A [`DiffHook`] that captures all diff operations.
#[derive(Default, Clone)]
pub struct Capture(Vec<DiffOp>);

impl Capture {
    /// Creates a new capture hook.
    pub fn new() -> Capture {
        Capture::default()
    }

    /// Converts the capture hook into a vector of ops.
    pub fn into_ops(self) -> Vec<DiffOp> {
        self.0
    }

    /// Isolate change clusters by eliminating ranges with no changes.
    ///
    /// This is equivalent to calling [`group_diff_ops`] on [`Capture::into_ops`].


    /// Accesses the captured operations.
    pub fn ops(&self) -> &[DiffOp] {
        &self.0
    }
}

impl DiffHook for Capture {
    type Error = Infallible;

    #[inline(always)]
    fn equal(&mut self, old_index: usize, new_index: usize, len: usize) -> Result<(), Self::Error> {
        self.0.push(DiffOp::Equal {
            old_index,
            new_index,
            len,
        });
        Ok(())
    }

    #[inline(always)]
    fn delete(
        &mut self,
        old_index: usize,
        old_len: usize,
        new_index: usize,
    ) -> Result<(), Self::Error> {
        self.0.push(DiffOp::Delete {
            old_index,
            old_len,
            new_index,
        });
        Ok(())
    }

    #[inline(always)]
    fn insert(
        &mut self,
        old_index: usize,
        new_index: usize,
        new_len: usize,
    ) -> Result<(), Self::Error> {
        self.0.push(DiffOp::Insert {
            old_index,
            new_index,
            new_len,
        });
        Ok(())
    }

    #[inline(always)]
    fn replace(
        &mut self,
        old_index: usize,
        old_len: usize,
        new_index: usize,
        new_len: usize,
    ) -> Result<(), Self::Error> {
        self.0.push(DiffOp::Replace {
            old_index,
            old_len,
            new_index,
            new_len,
        });
        Ok(())
    }
}

#[derive(Debug)]
pub struct Compact<'old, 'new, Old: ?Sized, New: ?Sized, D> {
    d: D,
    ops: Vec<DiffOp>,
    old: &'old Old,
    new: &'new New,
}

impl<'old, 'new, Old, New, D> Compact<'old, 'new, Old, New, D>
where
    D: DiffHook,
    Old: Index<usize> + ?Sized + 'old,
    New: Index<usize> + ?Sized + 'new,
    New::Output: PartialEq<Old::Output>,
{
    /// Creates a new compact hook wrapping another hook.
    pub fn new(d: D, old: &'old Old, new: &'new New) -> Self {
        Compact {
            d,
            ops: Vec::new(),
            old,
            new,
        }
    }

    /// Extracts the inner hook.
    pub fn into_inner(self) -> D {
        self.d
    }
}

impl<Old: ?Sized, New: ?Sized, D: DiffHook> AsRef<D> for Compact<'_, '_, Old, New, D> {
    fn as_ref(&self) -> &D {
        &self.d
    }
}

impl<Old: ?Sized, New: ?Sized, D: DiffHook> AsMut<D> for Compact<'_, '_, Old, New, D> {
    fn as_mut(&mut self) -> &mut D {
        &mut self.d
    }
}

impl<'old, 'new, Old, New, D> DiffHook for Compact<'old, 'new, Old, New, D>
where
    D: DiffHook,
    Old: Index<usize> + ?Sized + 'old,
    New: Index<usize> + ?Sized + 'new,
    New::Output: PartialEq<Old::Output>,
{
    type Error = D::Error;

    #[inline(always)]
    fn equal(&mut self, old_index: usize, new_index: usize, len: usize) -> Result<(), Self::Error> {
        self.ops.push(DiffOp::Equal {
            old_index,
            new_index,
            len,
        });
        Ok(())
    }

    #[inline(always)]
    fn delete(
        &mut self,
        old_index: usize,
        old_len: usize,
        new_index: usize,
    ) -> Result<(), Self::Error> {
        self.ops.push(DiffOp::Delete {
            old_index,
            old_len,
            new_index,
        });
        Ok(())
    }

    #[inline(always)]
    fn insert(
        &mut self,
        old_index: usize,
        new_index: usize,
        new_len: usize,
    ) -> Result<(), Self::Error> {
        self.ops.push(DiffOp::Insert {
            old_index,
            new_index,
            new_len,
        });
        Ok(())
    }

    fn finish(&mut self) -> Result<(), Self::Error> {
        cleanup_diff_ops(self.old, self.new, &mut self.ops);
        for op in &self.ops {
            op.apply_to_hook(&mut self.d)?;
        }
        self.d.finish()
    }
}

#[derive(Clone, Copy, Hash, PartialEq, Eq, PartialOrd, Ord, Debug)]
pub enum Algorithm {
    /// Picks the myers algorithm from [`crate::algorithms::myers`]
    Myers,
    /// Picks the patience algorithm from [`crate::algorithms::patience`]
    Patience,
    /// Picks the LCS algorithm from [`crate::algorithms::lcs`]
    Lcs,
}


mod algorithms { use super::*;
pub fn diff_deadline<Old, New, D>(
    alg: Algorithm,
    d: &mut D,
    old: &Old,
    old_range: Range<usize>,
    new: &New,
    new_range: Range<usize>,
    deadline: Option<Instant>,
) -> Result<(), D::Error>
where
    Old: Index<usize> + ?Sized,
    New: Index<usize> + ?Sized,
    D: DiffHook,
    Old::Output: Hash + Eq + Ord,
    New::Output: PartialEq<Old::Output> + Hash + Eq + Ord,
{
    match alg {
        Algorithm::Myers => myers::diff_deadline(d, old, old_range, new, new_range, deadline),
        Algorithm::Patience => patience::diff_deadline(d, old, old_range, new, new_range, deadline),
        Algorithm::Lcs => lcs::diff_deadline(d, old, old_range, new, new_range, deadline),
    }
}


}
use algorithms::diff_deadline as alg_diff_deadline;
pub fn capture_diff_deadline<Old, New>(
    alg: Algorithm,
    old: &Old,
    old_range: Range<usize>,
    new: &New,
    new_range: Range<usize>,
    deadline: Option<Instant>,
) -> Vec<DiffOp>
where
    Old: Index<usize> + ?Sized,
    New: Index<usize> + ?Sized,
    Old::Output: Hash + Eq + Ord,
    New::Output: PartialEq<Old::Output> + Hash + Eq + Ord,
{
    let mut d = Compact::new(Replace::new(Capture::new()), old, new);
    alg_diff_deadline(alg, &mut d, old, old_range, new, new_range, deadline).unwrap();
    d.into_inner().into_inner().into_ops()
}


} // verus!
fn main() {}
