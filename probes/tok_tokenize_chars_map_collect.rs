// C06 / unit `tok`: `str::tokenize_chars` (src/text/abstraction.rs) is `char_indices().map(closure).collect()`.
// Verus (0.2026.09.13) has no specification for `Iterator::map` / `collect` on `CharIndices` (provided trait
// methods, see tok_peekable_provided_method.rs) and the closure carries no contract: the function is not in unit `tok`.
// Expected: error "only variables are supported here, not general patterns" (the closure parameter `(i, c)`);
// with a plain parameter the next error is "`..::map` is not supported".
use vstd::prelude::*;
use core::str::CharIndices;
verus! {
#[verifier::external_type_specification]
#[verifier::external_body]
pub struct ExCharIndices<'a>(CharIndices<'a>);
pub assume_specification<'a>[str::char_indices](s: &'a str) -> (r: CharIndices<'a>);

fn tokenize_chars(this: &str) -> Vec<&str> {
    this.char_indices()
        .map(move |(i, c)| &this[i..i + c.len_utf8()])
        .collect()
}
}
fn main() {}
