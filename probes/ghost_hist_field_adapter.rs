use vstd::prelude::*;
verus! {
pub enum Ev { Equal(usize,usize,usize), Delete(usize,usize,usize), Finish }
pub trait DiffHook: Sized {
    type Error;
    spec fn trace(&self) -> Seq<Ev>;
    spec fn failed(&self) -> bool;
    fn equal(&mut self, old_index: usize, new_index: usize, len: usize) -> (r: Result<(), Self::Error>)
        requires !(*old(self)).failed(),
        ensures (*final(self)).trace() == (*old(self)).trace().push(Ev::Equal(old_index, new_index, len)),
                (*final(self)).failed() == r.is_err();
    fn finish(&mut self) -> (r: Result<(), Self::Error>)
        requires !(*old(self)).failed(),
        ensures (*final(self)).trace() == (*old(self)).trace().push(Ev::Finish),
                (*final(self)).failed() == r.is_err();
}
pub struct Replace<D: DiffHook> {
    d: D,
    eq: Option<(usize, usize, usize)>,
    hist: Ghost<Seq<Ev>>,
}
impl<D: DiffHook> Replace<D> {
    pub closed spec fn inner(&self) -> D { self.d }
    pub closed spec fn pending(&self) -> Option<(usize,usize,usize)> { self.eq }
    /// Creates a new replace hook wrapping another hook.
    pub fn new(d: D) -> (r: Self)
        ensures r.trace() == Seq::<Ev>::empty(), r.inner() == d, r.pending().is_none()
    {
        Replace {
            d,
            eq: None,
            hist: Ghost(Seq::empty()),
        }
    }
    fn flush_eq(&mut self) -> (r: Result<(), D::Error>)
        requires !(*old(self)).d.failed(),
        ensures (*final(self)).hist == (*old(self)).hist, (*final(self)).d.failed() == r.is_err(), (*final(self)).eq.is_none(),
            (*old(self)).eq matches Some((a,b,c)) ==> (*final(self)).d.trace() == (*old(self)).d.trace().push(Ev::Equal(a,b,c)),
            (*old(self)).eq.is_none() ==> (*final(self)).d == (*old(self)).d,
    {
        if let Some((eq_old_index, eq_new_index, eq_len)) = self.eq.take() {
            self.d.equal(eq_old_index, eq_new_index, eq_len)?
        }
        Ok(())
    }
}
impl<D: DiffHook> DiffHook for Replace<D> {
    type Error = D::Error;
    closed spec fn trace(&self) -> Seq<Ev> { self.hist@ }
    closed spec fn failed(&self) -> bool { self.d.failed() }
    fn equal(&mut self, old_index: usize, new_index: usize, len: usize) -> (r: Result<(), D::Error>) {
        proof { self.hist@ = self.hist@.push(Ev::Equal(old_index, new_index, len)); }
        self.eq = if let Some((eq_old_index, eq_new_index, eq_len)) = self.eq.take() {
            Some((eq_old_index, eq_new_index, eq_len + len))
        } else {
            Some((old_index, new_index, len))
        };

        Ok(())
    }
    fn finish(&mut self) -> (r: Result<(), D::Error>) {
        proof { self.hist@ = self.hist@.push(Ev::Finish); }
        self.flush_eq()?;
        self.d.finish()
    }
}
}
fn main() {}
