use vstd::prelude::*;
use std::ops::Range;
use vstd::std_specs::cmp::*;
verus! {
pub fn is_empty_range<T: PartialOrd<T>>(range: &Range<T>) -> (r: bool)
    ensures T::obeys_partial_cmp_spec() ==> r == !(range.start.partial_cmp_spec(&range.end) == Some(core::cmp::Ordering::Less))
{
    !(range.start < range.end)
}
fn t(a: usize, b: usize) {
    let r = is_empty_range(&(a..b));
    assert(r == !(a < b));
}
}
fn main() {}
