// C02 / C04 / unit `txt`: the public text entry points `TextDiffConfig::diff_lines / diff_words / diff_chars`
// (src/text/mod.rs) have the shape
//     self.diff(Cow::Owned(old.as_diffable_str().tokenize_lines()), Cow::Owned(new.as_diffable_str().tokenize_lines()), true)
// and are generic over `T: DiffableStrRef + ?Sized` with `T::Output: DiffableStr + ?Sized`.  Probe (hand-made model of
// the surrounding items, `diff` reduced to storing its arguments): Verus 0.2026.09.13 INGESTS all of it -
//   * trait-level `ensures` on `DiffableStr::tokenize_lines` (attribute form outside `verus!`) over an abstract ghost
//     `bytes()` view, `DiffableStrRef` with the associated type `Output: DiffableStr + ?Sized` and a ghost `ds()`,
//     the blanket `impl<T: DiffableStr + ?Sized> DiffableStrRef for T`,
//   * the return type `TextDiff<'old, 'new, 'bufs, T::Output>`, `Cow::Owned(vec)` for `Cow<'_, [&T::Output]>`
//     (`<[&U] as ToOwned>::Owned` normalises to `Vec<&U>`),
//   * the call is in tail position (no proof block can name its arguments): the size precondition of `diff` is
//     discharged by two broadcast facts (`axiom_cow_owned`, `lemma_tokcount`) that trigger on the callee's terms.
// So no assumed contract is needed on `as_diffable_str`, `Cow::Owned` (constructor) or the generics; the one assumed std
// fact is what `Cow::deref` returns for `Cow::Owned` (axiom_cow_owned, companion of axiom_cow_borrowed).
// Expected: 6 verified, 0 errors.  With `true` replaced by `false` the clause `res.nl()` fails; tokenizing `old` for
// both sides is rejected by the borrow checker (`TextDiff` is invariant in 'old / 'new) - as rustc does on the crate.
use vstd::prelude::*;
use std::borrow::Cow;
use std::hash::Hash;
use std::ops::Range;

verus! {
pub open spec fn cat(t: Seq<Seq<u8>>, i: int, j: int) -> Seq<u8>
    decreases j - i
{
    if j <= i { Seq::empty() } else { cat(t, i, j - 1) + t[j - 1] }
}
pub open spec fn tokens_partition(source: Seq<u8>, t: Seq<Seq<u8>>) -> bool {
    cat(t, 0, t.len() as int) == source
}
pub open spec fn toks<T: DiffableStr + ?Sized>(slices: Seq<&T>) -> Seq<Seq<u8>> {
    Seq::new(slices.len(), |i: int| slices[i].bytes())
}
pub open spec fn tok_post<T: DiffableStr + ?Sized>(s: &T, r: Seq<&T>) -> bool {
    tokens_partition(s.bytes(), toks(r)) && forall|k: int| 0 <= k < r.len() ==> (#[trigger] r[k]).bytes().len() > 0
}
}

#[verus_verify]
pub trait DiffableStr: Hash + PartialEq + PartialOrd + Ord + Eq + ToOwned {
    #[verus_spec] #[verifier::spec]
    fn bytes(&self) -> Seq<u8>;

    #[verus_spec(res => ensures tokens_partition(self.bytes(), Seq::new(res@.len(), |i: int| res@[i].bytes())), forall|k: int| 0 <= k < res@.len() ==> (#[trigger] res@[k]).bytes().len() > 0)]
    fn tokenize_lines(&self) -> Vec<&Self>;

    #[verus_spec(res => ensures res == self.bytes().len())]
    fn len(&self) -> usize;
}

#[verus_verify]
pub trait DiffableStrRef {
    type Output: DiffableStr + ?Sized;
    #[verus_spec] #[verifier::spec]
    fn ds(&self) -> &Self::Output;

    #[verus_spec(res => ensures res == self.ds())]
    fn as_diffable_str(&self) -> &Self::Output;
}

verus! {

impl<T: DiffableStr + ?Sized> DiffableStrRef for T {
    type Output = T;
    open spec fn ds(&self) -> &T { self }
    fn as_diffable_str(&self) -> (res: &T) {
        self
    }
}

pub uninterp spec fn cow_ref<'a, 'b, B: ?Sized + ToOwned>(c: &'b Cow<'a, B>) -> &'b B;
pub assume_specification<'a, 'b, B: ?Sized + ToOwned>[ <Cow<'a, B> as std::ops::Deref>::deref ](c: &'b Cow<'a, B>) -> (r: &'b B)
    ensures r == cow_ref(c);
#[verifier::external_body]
pub broadcast proof fn axiom_cow_borrowed<'a, B: ?Sized + ToOwned>(b: &'a B)
    ensures #[trigger] cow_ref(&Cow::<'a, B>::Borrowed(b)) == b {}
#[verifier::external_body]
pub broadcast proof fn axiom_cow_owned<'a, T: Clone>(v: Vec<T>)
    ensures (#[trigger] cow_ref(&Cow::<'a, [T]>::Owned(v)))@ == v@ {}

#[verifier::reject_recursive_types(T)]
pub struct TextDiff<'old, 'new, 'bufs, T: DiffableStr + ?Sized> {
    old: Cow<'bufs, [&'old T]>,
    new: Cow<'bufs, [&'new T]>,
    newline_terminated: bool,
}
impl<'old, 'new, 'bufs, T: DiffableStr + ?Sized> TextDiff<'old, 'new, 'bufs, T> {
    pub closed spec fn old_toks(&self) -> &[&'old T] { cow_ref(&self.old) }
    pub closed spec fn new_toks(&self) -> &[&'new T] { cow_ref(&self.new) }
    pub closed spec fn nl(&self) -> bool { self.newline_terminated }
}

pub struct TextDiffConfig { x: bool }

impl TextDiffConfig {
    pub fn diff_lines<'old, 'new, 'bufs, T: DiffableStrRef + ?Sized>(
        &self,
        old: &'old T,
        new: &'new T,
    ) -> (res: TextDiff<'old, 'new, 'bufs, T::Output>)
        requires old.ds().bytes().len() + new.ds().bytes().len() <= 1000
        ensures res.nl(),
          tok_post(old.ds(), res.old_toks()@),
          tok_post(new.ds(), res.new_toks()@),
    {
        broadcast use {axiom_cow_owned, lemma_tokcount};
        self.diff(
            Cow::Owned(old.as_diffable_str().tokenize_lines()),
            Cow::Owned(new.as_diffable_str().tokenize_lines()),
            true,
        )
    }

    fn diff<'old, 'new, 'bufs, T: DiffableStr + ?Sized>(
        &self,
        old: Cow<'bufs, [&'old T]>,
        new: Cow<'bufs, [&'new T]>,
        newline_terminated: bool,
    ) -> (res: TextDiff<'old, 'new, 'bufs, T>)
      requires cow_ref(&old)@.len() + cow_ref(&new)@.len() <= 1000
      ensures res.old_toks() == cow_ref(&old), res.new_toks() == cow_ref(&new), res.nl() == newline_terminated
    {
        TextDiff { old, new, newline_terminated }
    }
}

pub proof fn lemma_cat_len_ge(t: Seq<Seq<u8>>, n: int)
   requires 0 <= n <= t.len(), forall|k: int| 0 <= k < t.len() ==> (#[trigger] t[k]).len() > 0
   ensures cat(t, 0, n).len() >= n
   decreases n
{
   if n > 0 { lemma_cat_len_ge(t, n - 1); }
}

pub broadcast proof fn lemma_tokcount(src: Seq<u8>, t: Seq<Seq<u8>>)
   requires #[trigger] tokens_partition(src, t), forall|k: int| 0 <= k < t.len() ==> (#[trigger] t[k]).len() > 0
   ensures t.len() <= src.len()
{
   lemma_cat_len_ge(t, t.len() as int);
}

}
fn main() {}
