use vstd::prelude::*;
verus! {

pub enum Ev { Equal(usize,usize,usize), Delete(usize,usize,usize), Insert(usize,usize,usize), Replace(usize,usize,usize,usize), Finish }

pub trait DiffHook: Sized {
    type Error;

    spec fn trace(&self) -> Seq<Ev>;
    spec fn failed(&self) -> bool;

    fn equal(&mut self, old_index: usize, new_index: usize, len: usize) -> (r: Result<(), Self::Error>)
        requires !(*old(self)).failed(),
        ensures (*final(self)).trace() == (*old(self)).trace().push(Ev::Equal(old_index, new_index, len)),
                (*final(self)).failed() == r.is_err(),
    ;

    fn delete(&mut self, old_index: usize, old_len: usize, new_index: usize) -> (r: Result<(), Self::Error>)
        requires !(*old(self)).failed(),
        ensures (*final(self)).trace() == (*old(self)).trace().push(Ev::Delete(old_index, old_len, new_index)),
                (*final(self)).failed() == r.is_err(),
    ;
    fn insert(&mut self, old_index: usize, new_index: usize, new_len: usize) -> (r: Result<(), Self::Error>)
        requires !(*old(self)).failed(),
        ensures (*final(self)).trace() == (*old(self)).trace().push(Ev::Insert(old_index, new_index, new_len)),
                (*final(self)).failed() == r.is_err(),
    ;

    #[inline(always)]
    fn replace(
        &mut self,
        old_index: usize,
        old_len: usize,
        new_index: usize,
        new_len: usize,
    ) -> (r: Result<(), Self::Error>)
        requires !(*old(self)).failed(),
        ensures (*final(self)).failed() == r.is_err(),
           r.is_ok() ==> ((*final(self)).trace() == (*old(self)).trace().push(Ev::Replace(old_index, old_len, new_index, new_len))
             || (*final(self)).trace() == (*old(self)).trace().push(Ev::Delete(old_index, old_len, new_index)).push(Ev::Insert(old_index, new_index, new_len))),
    {
        self.delete(old_index, old_len, new_index)?;
        self.insert(old_index, new_index, new_len)
    }
}

pub struct NoFinishHook<D: DiffHook>(D);

impl<D: DiffHook> NoFinishHook<D> {
    /// Wraps another hook.
    pub fn new(d: D) -> NoFinishHook<D> {
        NoFinishHook(d)
    }
}

impl<'a, D: DiffHook + 'a> DiffHook for &'a mut D {
    type Error = D::Error;
    open spec fn trace(&self) -> Seq<Ev> { (**self).trace() }
    open spec fn failed(&self) -> bool { (**self).failed() }

    #[inline(always)]
    fn equal(&mut self, old_index: usize, new_index: usize, len: usize) -> Result<(), Self::Error> {
        (*self).equal(old_index, new_index, len)
    }
    #[inline(always)]
    fn delete(
        &mut self,
        old_index: usize,
        old_len: usize,
        new_index: usize,
    ) -> Result<(), Self::Error> {
        (*self).delete(old_index, old_len, new_index)
    }

    #[inline(always)]
    fn insert(
        &mut self,
        old_index: usize,
        new_index: usize,
        new_len: usize,
    ) -> Result<(), Self::Error> {
        (*self).insert(old_index, new_index, new_len)
    }
    #[inline(always)]
    fn replace(
        &mut self,
        old: usize,
        old_len: usize,
        new: usize,
        new_len: usize,
    ) -> Result<(), Self::Error> {
        (*self).replace(old, old_len, new, new_len)
    }
}

fn twice<D: DiffHook>(d: &mut D, a: usize) -> (r: Result<(), D::Error>)
    requires !(*old(d)).failed(),
    ensures r.is_ok() ==> (*final(d)).trace() == (*old(d)).trace().push(Ev::Equal(a, a, 1)).push(Ev::Delete(a,1,a)),
       (*final(d)).failed() == r.is_err(),
{
    d.equal(a, a, 1)?;
    d.delete(a, 1, a)?;
    Ok(())
}

} // verus!
fn main() {}
