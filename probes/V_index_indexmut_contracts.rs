use vstd::prelude::*;
use std::ops::{Index, IndexMut, Range};
use vstd::std_specs::core::{IndexSpec, IndexSpecImpl};
verus! {

pub struct V {
    pub offset: isize,
    pub v: Vec<usize>,
}

impl V {
    pub open spec fn wf(&self) -> bool {
        0 <= self.offset && self.v.len() == 2 * self.offset
    }
    pub open spec fn at(&self, k: int) -> usize { self.v@[k + self.offset] }
    pub open spec fn ok(&self, k: int) -> bool { 0 <= k + self.offset < self.v.len() && self.v.len() < 0x1000_0000 }
}

impl IndexSpecImpl<isize> for V {
    open spec fn index_req(&self, index: &isize) -> bool {
        self.ok(*index as int)
    }
}

impl Index<isize> for V {
    type Output = usize;

    fn index(&self, index: isize) -> (r: &Self::Output)
        ensures *r == self.at(index as int)
    {
        &self.v[(index + self.offset) as usize]
    }
}

impl IndexMut<isize> for V {
    fn index_mut(&mut self, index: isize) -> (r: &mut Self::Output)
        ensures *r == old(self).at(index as int),
            final(self).offset == old(self).offset,
            final(self).v@ == old(self).v@.update(index + old(self).offset, *final(r)),
    {
        &mut self.v[(index + self.offset) as usize]
    }
}

fn test(vf: &mut V)
    requires old(vf).wf(), old(vf).offset >= 3, old(vf).v.len() < 0x1000_0000,
    ensures final(vf).at(1) == 7, final(vf).wf(),
{
    vf[1] = 0;
    vf[2] = 5;
    vf[1] = 7;
    let a = vf[2];
    assert(a == 5);
}

} // verus!
fn main() {}
