use vstd::prelude::*;
use std::ops::{Index, Range};
use vstd::std_specs::core::IndexSpec;
verus! {

pub uninterp spec fn item_at<L: Index<usize> + ?Sized>(l: &L, i: usize) -> &L::Output;
pub uninterp spec fn item_eq<A: PartialEq<B> + ?Sized, B: ?Sized>(a: &A, b: &B) -> bool;

#[verifier::external_body]
pub broadcast proof fn axiom_pure_index<L: Index<usize> + ?Sized>(l: &L, i: usize, r: &L::Output)
    requires #[trigger] call_ensures(<L as Index<usize>>::index, (l, i), r)
    ensures r == item_at(l, i)
{}

#[verifier::external_body]
pub broadcast proof fn axiom_pure_eq<A: PartialEq<B> + ?Sized, B: ?Sized>(a: &A, b: &B, r: bool)
    requires #[trigger] call_ensures(<A as PartialEq<B>>::eq, (a, b), r)
    ensures r == item_eq(a, b)
{}

pub open spec fn eqv<Old: Index<usize> + ?Sized, New: Index<usize> + ?Sized>(old: &Old, i: usize, new: &New, j: usize) -> bool
  where New::Output: PartialEq<Old::Output>
{
    item_eq(item_at(new, j), item_at(old, i))
}

pub fn eqat<Old, New>(old: &Old, i: usize, new: &New, j: usize) -> (r: bool)
where Old: Index<usize> + ?Sized,
    New: Index<usize> + ?Sized,
    New::Output: PartialEq<Old::Output>,
    requires old.index_req(&i), new.index_req(&j),
    ensures r == eqv(old, i, new, j)
{
    broadcast use {axiom_pure_index, axiom_pure_eq};
    new[j] == old[i]
}

} // verus!
fn main() {}
