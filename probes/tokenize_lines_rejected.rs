use vstd::prelude::*;
verus! {
    #[verifier::exec_allows_no_decreases_clause]
    fn tokenize_lines(this: &str) -> Vec<&str> {
        let mut iter = this.char_indices().peekable();
        let mut last_pos = 0;
        let mut lines = vec![];

        while let Some((idx, c)) = iter.next() {
            if c == '\r' {
                if iter.peek().map_or(false, |x| x.1 == '\n') {
                    lines.push(&this[last_pos..=idx + 1]);
                    iter.next();
                    last_pos = idx + 2;
                } else {
                    lines.push(&this[last_pos..=idx]);
                    last_pos = idx + 1;
                }
            } else if c == '\n' {
                lines.push(&this[last_pos..=idx]);
                last_pos = idx + 1;
            }
        }

        if last_pos < this.len() {
            lines.push(&this[last_pos..]);
        }

        lines
    }
}
fn main() {}
