use vstd::prelude::*;
verus! {
pub trait H: Sized { spec fn t(&self) -> int; fn bump(&mut self) ensures (*final(self)).t() == (*old(self)).t() + 1; }
impl<'a, D: H + 'a> H for &'a mut D {
    open spec fn t(&self) -> int { (**self).t() }
    fn bump(&mut self) { (*self).bump() }
}
pub struct W<D: H>(D);
impl<D: H> W<D> {
    pub closed spec fn inner(&self) -> D { self.0 }
    pub fn new(d: D) -> (r: W<D>) ensures r.inner() == d { W(d) }
}
impl<D: H> H for W<D> {
    open spec fn t(&self) -> int { self.inner().t() }
    fn bump(&mut self) { self.0.bump() }
}
fn run<D: H>(d: &mut D) ensures (*final(d)).t() == (*old(d)).t() + 1 { d.bump() }
struct P<'d, D> { d: &'d mut D, k: u64 }
impl<'d, D: H> P<'d, D> {
    fn go(&mut self)
        ensures (*final(self).d).t() == (*old(self).d).t() + 1, final(self).k == old(self).k
    {
        let mut w = W::new(&mut self.d);
        run(&mut w);
    }
}
}
fn main() {}
