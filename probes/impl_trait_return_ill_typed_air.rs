// Verus 0.2026.09.13: verifying the BODY of a function that returns a field as `&impl Index<..>` panics with
// "internal error: generated ill-typed AIR code" (remove the external_body attribute on old_lookup to reproduce);
// with external_body the caller side works, which is how IdentifyDistinct::{old,new}_lookup are handled (contracts/textdiff.rs).
use vstd::prelude::*;
use std::ops::Index;
use vstd::std_specs::core::{IndexSpecImpl, IndexSpec};
verus! {
pub uninterp spec fn item_at<L: Index<usize> + ?Sized>(l: &L, i: usize) -> &L::Output;
pub struct OL { offset: usize, vec: Vec<u32> }
impl IndexSpecImpl<usize> for OL {
    closed spec fn index_req(&self, index: &usize) -> bool { self.offset <= *index < self.offset + self.vec.len() }
}
impl Index<usize> for OL {
    type Output = u32;
    fn index(&self, index: usize) -> (r: &u32)
    {
        &self.vec[index - self.offset]
    }
}
pub struct ID { old: OL }
impl ID { pub closed spec fn o(&self) -> &OL { &self.old } }
impl ID {
    #[verifier::external_body]
    pub fn old_lookup(&self) -> (r: &impl Index<usize, Output = u32>)
        ensures forall|k: usize| (#[trigger] r.index_req(&k)) == IndexSpec::index_req(self.o(), &k),
           forall|k: usize| #[trigger] item_at(r, k) == item_at(self.o(), k),
    {
        &self.old
    }
}
fn use_it<L: Index<usize, Output = u32> + ?Sized>(l: &L) -> (x: u32) requires l.index_req(&3usize) { l[3] }
fn caller(id: &ID) requires IndexSpec::index_req(id.o(), &3usize)
{
    let x = use_it(id.old_lookup());
}
}
fn main() {}
