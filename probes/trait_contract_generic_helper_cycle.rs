// unit `tok` / `txt` (contracts/diffablestr.rs): a spec function that is generic over `T: DiffableStr` cannot be used
// in the contract of a method of `DiffableStr` itself.
// Expected (Verus 0.2026.09.13): error "found a cyclic self-reference in a definition, which may result in
// nontermination" (trait declaration -> tokenize_lines -> tok_post -> trait bound).  Workaround used: the clauses are
// written out in the trait (`Self::bytes` is allowed there); `tok_post` restates them for use outside the trait.
use vstd::prelude::*;
verus! {
pub open spec fn toks<T: DiffableStr + ?Sized>(slices: Seq<&T>) -> Seq<Seq<u8>> {
    Seq::new(slices.len(), |i: int| slices[i].bytes())
}
pub open spec fn tok_post<T: DiffableStr + ?Sized>(s: &T, r: Seq<&T>) -> bool {
    toks(r).len() <= s.bytes().len()
}
pub trait DiffableStr {
    spec fn bytes(&self) -> Seq<u8>;
    fn tokenize_lines(&self) -> (res: Vec<&Self>)
        ensures tok_post(self, res@);
}
}
fn main() {}
