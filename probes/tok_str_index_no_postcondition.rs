// C06 / unit `tok`: vstd (0.2026.09.13) gives `&s[a..b]` on `str` a precondition (IndexSpec::index_req = both ends
// on char boundaries) but no postcondition: the second assertion fails.  vstd does specify
// `SliceIndex<str>::index` (index_postcondition: result bytes = bytes[a..b]); contracts/tokens.rs links the two with
// an assumed contract for `<str as Index<I>>::index` (std's body is `index.index(self)`).
// Expected: 1 error, "assertion failed" on the line marked (*).
use vstd::prelude::*;
use vstd::string::*;
use vstd::slice::SliceIndexSpec;
verus! {
fn f(s: &str, a: usize, b: usize) -> (r: &str)
    requires (a..b).in_bounds(s)
{
    let r = &s[a..b];
    assert(r.spec_bytes() == s.spec_bytes().subrange(a as int, b as int));   // (*)
    r
}
}
fn main() {}
