// unit `tok` (contracts/tokens.rs, tokbridge.rs): a method of `impl DiffableStr for str` cannot call a lemma whose
// statement mentions the impl (`toks::<str>`, `<str as DiffableStr>::bytes`).
// Expected (Verus 0.2026.09.13): error "found a cyclic self-reference in a definition" (impl -> method -> lemma ->
// impl).  Workaround used: the bridge lemmas are stated over `spec_bytes()` / the slice view only
// (lemma_tok_partition_bridge), and the step to the trait's vocabulary is one extensional-equality assertion inside the
// method, where `<str as DiffableStr>::bytes` may be named.
use vstd::prelude::*;
use vstd::string::*;
verus! {
pub trait DiffableStr {
    spec fn bytes(&self) -> Seq<u8>;
    fn tokenize(&self) -> (res: Vec<&Self>)
        ensures res@.len() > 0 ==> res@[0].bytes().len() <= self.bytes().len();
}
pub open spec fn toks<T: DiffableStr + ?Sized>(slices: Seq<&T>) -> Seq<Seq<u8>> {
    Seq::new(slices.len(), |i: int| slices[i].bytes())
}
proof fn lemma_bridge(s: &str, r: Seq<&str>)
    requires r.len() > 0, r[0] == s
    ensures toks::<str>(r)[0].len() <= s.spec_bytes().len()
{}
impl DiffableStr for str {
    open spec fn bytes(&self) -> Seq<u8> { self.spec_bytes() }
    fn tokenize(&self) -> (res: Vec<&Self>)
    {
        let mut v = Vec::new();
        v.push(self);
        proof { lemma_bridge(self, v@); }
        v
    }
}
}
fn main() {}
