use vstd::prelude::*;
verus! {
pub struct It { pub cur: Option<u32>, pub left: usize }
pub struct All<'a> { pub ops: &'a [u32], pub current: Option<It> }
impl It { pub fn next(&mut self) -> Option<u32> { if self.left > 0 { self.left -= 1; self.cur } else { None } } }
impl<'a> All<'a> {
    #[verifier::exec_allows_no_decreases_clause]
    pub fn next(&mut self) -> Option<u32> {
        loop {
            if let Some(ref mut iter) = self.current {
                if let Some(rv) = iter.next() {
                    return Some(rv);
                }
                self.current.take();
            }
            if let Some((first__r, rest)) = self.ops.split_first() { let first = *first__r;
                self.current = Some(It { cur: Some(first), left: 1 });
                self.ops = rest;
            } else {
                return None;
            }
        }
    }
}
}
fn main() {}
