use vstd::prelude::*;
verus! {
pub struct Obs { pub t: int, pub failed: bool }
pub trait H: Sized {
    spec fn t(&self) -> int;
    spec fn failed(&self) -> bool;
    #[verifier::prophetic] spec fn fobs(&self) -> Seq<Obs>;
    fn bump(&mut self) -> (r: Result<(), ()>) requires !(*old(self)).failed(),
        ensures (*final(self)).failed() == r.is_err(), r.is_ok() ==> (*final(self)).t() == (*old(self)).t() + 1, (*final(self)).fobs() == (*old(self)).fobs();
}
pub open spec fn obs_now<D: H>(d: D) -> Obs { Obs { t: d.t(), failed: d.failed() } }
impl<'a, D: H + 'a> H for &'a mut D {
    open spec fn t(&self) -> int { (**self).t() }
    open spec fn failed(&self) -> bool { (**self).failed() }
    #[verifier::prophetic] open spec fn fobs(&self) -> Seq<Obs> { seq![obs_now(mut_ref_future(*self))] + mut_ref_future(*self).fobs() }
    fn bump(&mut self) -> (r: Result<(), ()>) { (*self).bump() }
}
pub struct W<D: H>(D);
impl<D: H> W<D> {
    pub closed spec fn inner(&self) -> D { self.0 }
    pub fn new(d: D) -> (r: W<D>) ensures r.inner() == d { W(d) }
}
impl<D: H> H for W<D> {
    open spec fn t(&self) -> int { self.inner().t() }
    open spec fn failed(&self) -> bool { self.inner().failed() }
    #[verifier::prophetic] open spec fn fobs(&self) -> Seq<Obs> { self.inner().fobs() }
    fn bump(&mut self) -> (r: Result<(), ()>) { self.0.bump() }
}
fn run<D: H>(d: &mut D) -> (r: Result<(), ()>) requires !(*old(d)).failed(),
  ensures (*final(d)).failed() == r.is_err(), r.is_ok() ==> (*final(d)).t() == (*old(d)).t() + 1, (*final(d)).fobs() == (*old(d)).fobs() { d.bump() }
pub struct P<'d, D> { d: &'d mut D, k: u64 }
impl<'d, D: H> P<'d, D> {
    #[verifier::prophetic] pub closed spec fn fo(&self) -> Seq<Obs> { seq![obs_now(mut_ref_future(self.d))] + mut_ref_future(self.d).fobs() }
    fn go(&mut self) -> (r: Result<(), ()>)
        requires !(*old(self).d).failed(),
        ensures (*final(self).d).failed() == r.is_err(), r.is_ok() ==> (*final(self).d).t() == (*old(self).d).t() + 1, final(self).k == old(self).k,
            final(self).fo() == old(self).fo(),
    {
        let mut w = W::new(&mut self.d);
        run(&mut w)?;
        Ok(())
    }
}
}
fn main() {}
